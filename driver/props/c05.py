"""C05 — Vary: a stored variant is only served to requests that select it."""
import itertools
import json
import os
import re

from kv import Case, xn, xb, xl, xlist, xbool, xparse, xtext
import kv
import pipe

ID = "C05"
MODULE = "C05"
IMPORTS = "Bytes RustInt Range CacheControl Cache CacheProofs Fixture CacheX CacheXProofs RustStd Vary VaryProofs VaryWire VaryWireProofs RuleSet CacheRulesProofs VaryRules VaryRulesProofs"
PROFILES = ("dev",)

RULE = ("histories through the real kvarn::handle_cache in process (component vary.run, harness/src/c05.rs on top of c00pipe.rs) and over one loopback "
        "HTTP/1.1 connection served by kvarn::handle_connection (component vary.wire, harness/src/c05wire.rs: what SendKind::send wrote). Hosts with 1-4 "
        "pages, each with a vary rule set of 0-3 rules (header name incl. mixed-case and non-token names and names equal to / pieces of / extensions "
        "of the fixed part of the vary header: accept, range, accept-encoding, encoding, ran, accept-enc, e, x-accept ..., transformation from the many-to-few menu "
        "{lower-case, first-byte class lo/hi/none, length mod 3, constant} implemented in Rust and in Gallina, default incl. defaults equal to a class), "
        "registered under the exact path or under a pattern '<prefix>*' (longer pattern / exact path win; family 'specificity': an exact rule next to the wildcards '<path>*' — one byte longer than the exact path —, '<path minus its last byte>*' — exactly as long —, a shorter prefix and '/*', every rule set varying on ANOTHER header, added in both orders and in random order; the page under two values of its own header that the transformation keeps apart, with the wildcards' headers absent and present), server cache preference Full or QueryMatters, "
        "bodies below and above the 50-byte floor of the compressor, with and without the default extensions (Prime uri_redirect in front); pages "
        "served through an INTERNAL ROUTE (a Prime extension of the harness answers the public path, after the redirect, with '/./...' [+ query]; two "
        "public paths share one internal page; the vary rules are registered on the internal path and the public path has a rule set of its own on other "
        "headers; with the default extensions a foreign Origin is rerouted to /./cors_fail, which has a rule set, too), incl. requests suspended in "
        "the handler while the internal item is cleared (the item-creating arm of handle_vary_missing); served by a "
        "counting handler that echoes its own transformed tuple (and the query on QueryMatters pages), on 'picky' pages declaring no server caching "
        "for some tuples (those variants must be recomputed by every request and never appear in a dump); requests GET/HEAD/POST whose rule headers are "
        "absent, present (same class / different class), empty or blanks only (family 'empty-values': absent / empty / blank / a value, in the arrival orders, under every transformation of the menu with a default that is not transformation('')), repeated with values of different classes, or not text (obs-text bytes), with "
        "accept-encoding, If-Modified-Since (start + 100 s = fresh for every entry, start - 100 s = for none; with a tuple that is stored -> 304, with one "
        "that is not -> computed), and on the wire Range (satisfiable, starting after the end, start > end, unparsable; together with a fresh "
        "If-Modified-Since: the 304 goes out as it is); page clears of the URL as requested and of its '.'/'/' form (clear_page also clears the default "
        "redirect target); every history = first pass in some arrival order, dump of the stored variant vector, second pass, "
        "dump; thorough: all arrival orders of every chosen request multiset of size <= 5, random orders beyond; quick: all orders of size <= 4 for a few "
        "sets, all orders of 2-4 tuples whose components run together to the same text (('ab','c') / ('a','bc') / ('abc','') ...) + random. Compared per "
        "request with the extracted model: status, vary header, decoded body, identity body, handler invocation log; per dump: "
        "the stored header lists in vector order; on the wire: status, every vary line, decoded body, handler log. Spec oracles: (1) component vary.spec = "
        "finite map (page, transformed tuple) -> response (pages stored under the path key, no conditional requests); (2) an independent reading of the "
        "property in Python on the implementation's output alone (every sequential history, in process and on the wire, incl. QueryMatters pages and "
        "conditional requests): a store cache key -> set of tuples; a request is answered without a handler invocation exactly when its own tuple (and "
        "query) was computed since the last clear, with exactly one otherwise; a 304 is the answer exactly when the date is fresh AND the request's own "
        "tuple was computed since the last clear (a 304 for any other tuple is a violation), whatever the Range header; every 200/206 body is the "
        "rendering of the request's own transformed tuple; "
        "every response with a body carries exactly one vary line whose comma-separated elements are accept-encoding, range and then exactly the rule "
        "headers of the path the page is cached under (the internal path of a route; compared by what is listed - a repeated accept-encoding/range "
        "is not fixed by the property - the text itself is compared with the model), 416/404/403/400/406 included; "
        "no dumped vector holds two variants with equal lists, and every dump holds exactly the tuples computed and admitted since the last clear. distinct_nontrivial = histories that stored >= 3 variants on one page / wire histories "
        "with >= 2 different statuses")
ASSUMPTIONS = [
    "sequential histories in the theorems about serveV (one request at a time); the one suspension point of handle_cache (the await on the handler in "
    "the miss arm / in handle_vary_missing) is modelled as two phases, and interleavings at that point are exercised by the park/release operations "
    "of the harness and covered by the theorems stale_position_* only",
    "moka is a finite map with read-your-writes; its capacity (1024 entries) is never reached",
    "vary_refines_map / computed_once_per_tuple: every GET/HEAD response of the handler is cacheable under the path key and never expires, requests pass "
    "sanitize and carry no If-Modified-Since (theorem hypotheses; for QueryMatters pages and conditional requests the same is checked by the Python "
    "history oracle and by the correspondence, and follows from vector_refines_assoc_list + C03's theorems)",
    "rule sets are looked up through the model of extensions::RuleSet (Model/RuleSet.v, C14's subject; here exact paths and patterns of different "
    "lengths). Prime extensions are an arbitrary function request -> (rewritten request, optional internal override URI) in the theorems "
    "(Extensions::resolve_prime; kvarn 9992768 / 95589fa: handler, cache keys and vary rules are those of the override URI); in the runs: the redirect "
    "Prime and the CORS denial of Extensions::new() and one route-table Prime of the harness (cfg ovroutes), which runs last; the CORS preflight Prime "
    "(OPTIONS + access-control-request-method) is never triggered",
    "what the cache layer reads of a request's method and headers is modelled as read off the looked-up URI's request (lreq q: the request with path and "
    "query replaced by the override's): route_keeps_method_and_headers proves that it carries the real request's method and headers, and "
    "variant_of_the_cached_path restates the served-variant theorem in terms of the real request's headers",
    "the handler of an internal route must not render the URI of the page it is served for (kvarn caches its response under the internal URI and "
    "serves it to every public path routed there): the fixture's internal pages echo the transformed tuple only; vary_cache_transparent states this as "
    "part of C03's handler contract",
    "HeaderMap::get(&str) for rule names longer than 64 bytes is modelled by the same normalisation as for shorter ones (not generated)",
    "content negotiation is abstract (C06): bodies are compared after decoding content-encoding with standard decoders (bodies above the 50-byte floor "
    "with accept-encoding are generated); streaming responses (a `future` in the reply) are not modelled: handle_cache skips apply_header for a stream "
    "without announced length in either arm (kvarn 00528a6), never stores one, send does not apply ranges to streams (apply_header's no_range branch is "
    "in the model but unreachable from serveV); C03/C04 cover them in Model/CacheX.v",
    "handle_vary_missing admits a new variant like a new item (kvarn 8fe98d4, 92a9cd2: preference, method, status filter, kvarn-cache-control, size "
    "limit; a query-dependent response only into an item keyed with the query; lifetime capped by the variant's own): modelled and covered by every "
    "theorem (invariant, refinement of Model/CacheX.v, served_copy_is_held); exercised by pages whose handler (kind 6, harness/src/c05.rs) declares no "
    "server caching for some transformed tuples; the other reasons for a refusal (status filter, kvarn-cache-control, size, a query-dependent variant "
    "of a path-keyed item) need per-variant statuses/headers/preferences the fixture does not have: exercised by C04 (pipex.run)",
    "SendKind::send learns the URI a response was cached under from the request's extensions (extensions::InternalUri, put there by handle_cache: kvarn "
    "31ad067): a caller that hands send a different request than the one handle_cache saw gets the rules of that request's path on the 416 page "
    "(kvarn's own callers pass the same request; not run otherwise)",
    "on the wire: wire_vary_advertised assumes that the operator's Package extensions leave `vary` alone (hypothesis; the ones of Extensions::new() do, "
    "observed); what send does besides (content-length, connection, version) is C08's subject and not in Model/VaryWire.v; the answers handle_connection "
    "gives before a host's page is consulted (429 of the limiter, 409 for an unknown host) carry no vary and are outside the property (they do not "
    "depend on the path: 'when a path has vary rules'); HTTP/2 and HTTP/3 write the same head (not run)",
    "kvarn's HTTP/1 parser keeps the last of repeated header lines (HeaderMap::insert in utils/src/parse.rs: C07's subject), so handle_cache never sees a "
    "repeated rule header on an HTTP/1 connection: repeated headers are exercised in process only",
    "If-Modified-Since: since kvarn 832d735 the 304 needs a fresh date for the entry AND the request's own variant in it "
    "(not_modified_only_for_stored_variant; before: the date alone, not_modified_only_for_stored_variant_v0_refuted, observed on the code then). That "
    "the 304 is the truth for a client that sends back the last-modified it was given for the same URL and the same transformed tuple is proved per "
    "entry (not_modified_same_entry_sound: the entry holds for that tuple the variant the client was served; entry_changes_are_dated: a value never "
    "changes under its date) and over histories (honest_not_modified_sound + served_copy_is_held) under three explicit premises: every later request "
    "happens at a time after the client's date (a clock that moves on), the entry the 304 is decided on is not younger than that date (what the "
    "freshness test establishes up to the one-second resolution of HTTP dates: C04's not_modified_arithmetic is the other half, not composed here), "
    "and the URL is cached under one of its two keys "
    "only (pages that do not switch between the preferences QueryMatters and Full)",
]
TRUSTED = ["modelled: src/vary.rs (Settings::add_rule's assertion, VariedResponse::{new,push_response,get,get_headers_for_request,get_by_request,first}, "
           "get_header, apply_header, apply_header_from_settings, derived Ord of Header and Ord of slices), src/extensions.rs resolve_prime as a function "
           "request -> (request, override URI) (the fixture's: uri_redirect, Cors denial, the harness's route table), src/lib.rs handle_cache + "
           "handle_cache_helpers::{maybe_cache, get_cache, handle_vary_missing}, comprash::{server_cache_lifetime, MokaCache::insert} (as in Model/CacheX.v, "
           "with the variant vector instead of an association list), Collection::clear_page + extensions::uri_redirect_target (Model/Cache.v "
           "redirect_target), SendKind::send as far as status, body and vary go (Model/VaryWire.v: the body dropped after 1xx/204/304, a 304 not "
           "range-sliced, apply_to_response = Model/Range.v, the 416 replacement, resolve_package abstract, HEAD), extensions::RuleSet::{add_mut,get} (Model/RuleSet.v), rustc 1.95 slice::binary_search_by (Model/RustStd.v), http 1.5.0 "
           "HeaderMap::get(&str) name normalisation (HEADER_CHARS), HeaderValue::to_str; handlers/transformations are the fixture menu "
           "(harness/src/c00pipe.rs = Model/Fixture.v, kinds 5/6 and the route-table Prime in harness/src/c05.rs = Model/Vary.v compute_c05 / route_fix / "
           "prime_fix, the CORS denial = Model/CacheX.v cors_override + Model/Vary.v cors_denied_fat); the dump reads the field names "
           "`name`/`transformed` and string literals out of VariedResponse's Debug output (nothing else of it; an unreadable dump is skipped and reported, "
           "never a verdict); the wire client of c05wire.rs (own framing by content-length)"]
LEVEL_TEXT = ("Coq theorems, for all rule sets (any number of rules, names, transformations, defaults), all header values, every behaviour of the "
              "Prime extensions (any function request -> rewritten request + optional internal override URI: the page is handled, looked up and cached "
              "under the override URI if there is one, and the rules are those of THAT path at both sites that create a cache item) and all histories "
              "(requests, page clears, clear-all, waits/expiry): vary_served_for_equal_tuple — by an inductive invariant on the cache (every variant "
              "vector strictly sorted for Rust's Ord on [Header], built with the page's rules, every stored response computed for a request of that page "
              "with exactly the stored transformed list) no step panics and every reply is a stored response computed for a request cached under the same "
              "path with an equal transformed list (or the bare 304 that vouches for such a stored response - never for another tuple), or the "
              "response computed now for this very request; variant_of_the_cached_path spells that out in terms of the real request's headers and the "
              "rules of the path the response is cached under (route_keeps_method_and_headers: the looked-up URI differs from the request in path and "
              "query only); variants_sorted (no two entries with equal lists); items_built_with_rules_of_their_path (after every history every "
              "cache item holds the rules of the path it is stored under and lists made by those rules - whichever site created it); "
              "lookup_refines_map / insert_refines_map / lookup_never_wrong_variant (rustc 1.95 binary_search_by on the vector = finite map; exact match "
              "even on an unsorted vector); vary_refines_map — the server's observations and handler invocations equal those of a finite-map server "
              "(page, transformed list) -> response for every history when GET/HEAD responses are cacheable under the path key without expiry; "
              "computed_once_per_tuple (classes = path cached under x transformed list); default_applied; vary_header_eq (exact equation, rule order, "
              "rules of the path cached under) and vary_lists_every_rule_header (every rule header - whatever its name, also a piece of "
              "'accept-encoding, range' - is a whole element of the list after the fixed part) for the reply of handle_cache and "
              "wire_vary_advertised for what SendKind::send passes to the connection: for every history, every sanitize verdict and every range, each "
              "response with a non-empty body — the reply, a range cut out of it, or the 416 page that replaces it — carries vary: accept-encoding, "
              "range, <rule headers of the path cached under>, given Package extensions that leave vary alone; "
              "wire_416_internal_route_v0_refuted: before kvarn 31ad067 the 416 page of an internal route listed the rule headers of the request's "
              "own path (fixture history reproduced on the code + for every page); send_keeps_vary (send without replacement never changes vary); "
              "wire_not_modified_as_is (a 304 is sent as it is whatever the Range header, fix 9ae9b1a); "
              "wire_416_without_vary_v0_refuted: before the repair of send (fix 21f0154) the 416 page had no vary (fixture history reproduced on the "
              "code + for every page); stale_position_safe for the repaired handle_vary_missing (second half of a request against any "
              "invariant-satisfying cache) with stale_position_v0_refuted for the code before that repair; If-Modified-Since: "
              "not_modified_only_for_stored_variant (merged code, fix 832d735: with a fresh date the 304 is sent when the entry holds the variant the "
              "request selects; a request whose own tuple is not in the entry runs the handler once and gets its own response), "
              "not_modified_only_for_stored_variant_v0_refuted (before that fix the first half of handle_cache answered 304 on the entry's date alone: "
              "for every cache and request, + the fixture history observed on the code then and its outcome now), not_modified_same_entry_sound + entry_changes_are_dated (a client whose copy stems from the entry "
              "the 304 is decided on holds the variant that entry has for its tuple; no value changes under its date), honest_not_modified_sound + "
              "served_copy_is_held (over all histories: a client that was served, or had computed and stored/pushed, the response f for its tuple with "
              "date L is told 'not modified' on the strength of an entry not younger than L only while that entry holds f for its tuple; a pushed "
              "variant that is not admitted to the cache - fixes 8fe98d4, 92a9cd2 - leaves the cache as it was; premises: "
              "later requests happen after L, one cache key per URL); vector_refines_assoc_list + "
              "vary_cache_transparent connect the vector model to Model/CacheX.v (C03/C04's model of the merged code, all repairs on, now with its override "
              "URI instantiated by the real one instead of 'none') and C03's "
              "transparency (without the premise that query-dependence is uniform per path). Which rules a page gets: vary_rules_of_most_specific (the rules_of "
              "the model is instantiated with — rules_fix = RuleSet::get on the vector add_mut keeps — are, for every rule set and order of addition, "
              "those of C14's independent most-specific resolver), vary_exact_rule_wins_c05 (an exact rule beats every covering wildcard, also '<path>*' "
              "which is longer and '<path minus last byte>*' which is as long), vary_longest_pattern_wins_c05, vary_uncovered_path_has_no_rules, with "
              "length_only_shadows_exact_refuted (ordered by text length alone, stable: /docs* and — added first — /doc* shadow /docs; its "
              "accept-language variants share one key). Empty values: empty_value_is_transformed (a rule header present with an empty value gets "
              "transformation(''), and selects another variant than the absent header whenever that differs from the default) with "
              "empty_as_default_refuted (empty values skipped: one key for two answers). Tied to the repo by the differential run of the "
              "real kvarn::handle_cache and of kvarn::handle_connection (loopback) against the extracted models (incl. the order of the stored vector), "
              "the finite-map spec oracle and an independent Python reading of the property on the implementation's output. Not proved: the composition of "
              "honest_not_modified_sound with the one-second arithmetic of the freshness test (C04); streaming replies.")
LEVEL_NOTE = ("Trusted: Coq kernel; extraction (sample re-checked in-kernel); hand transcription of vary.rs / handle_cache / the vary-relevant part of send "
              "into Model/Vary.v and Model/VaryWire.v validated by the differential runs incl. the order of the stored vector; moka as a finite map; the "
              "harness's own HTTP/1 client. No axioms.")
TECHNIQUE = ("Coq proof (inductive invariant over all histories + refinement of the sorted vector to a finite map + send as a function of the reply) + "
             "differential correspondence on kvarn::handle_cache and on kvarn::handle_connection over loopback")

REPORT = [b"vary"]      # (the presence of last-modified is C04's subject: not compared here)

# ---- menus -------------------------------------------------------------------------------
NAMES = [b"x-a", b"x-b", b"x-c", b"accept-language", b"x-a", b"x-b"]
ODD_NAMES = [(b"X-Up", b"x-up"), (b"x bad", None), (b"x:y", None), (b"X-A", b"x-a")]   # (rule name, request header name or None)
# rule headers whose names are equal to / pieces of / extensions of the two names every vary header starts with
# ("accept-encoding, range"): each of them is a rule header like any other and has to be listed after the fixed part
OVERLAP_NAMES = [b"accept", b"range", b"accept-encoding", b"encoding", b"x-accept", b"ran", b"accept-enc", b"Accept", b"e", b"Range",
                 b"accept-encoding-x", b"ge"]
RANGE_VALUES = [b"bytes=0-1", b"bytes=1-3", b"bytes=0-", b"en", b"zz", b"", b"bytes=2-1000", b"BYTES=0-1"]     # never start > end
DEFAULTS = [b"dflt", b"lo", b"hi", b"0", b"", b"en", b"k", b"none", b"zz"]
VALUES = {
    # (values that are only blanks: present, not trimmed in process; the generators of wire histories leave them out)
    0: [b"en", b"EN", b"sv", b"Sv", b"de", b"fr", b"a", b"zz", b"", b"en-GB", b"b\tc", b"dflt", b" "],
    1: [b"apple", b"Mango", b"zebra", b"Nope", b"", b"m", b"n", b"9", b"hi", b"lo", b" "],
    2: [b"", b"a", b"ab", b"abc", b"abcd", b"abcde", b"zzzzzz", b"  ", b"\t"],
    3: [b"x", b"y", b"", b"anything", b" "],
}
NONTEXT = [b"\xe9t\xe9", b"en\xff", b"\x80", b"sv\xc3\xa5"]
LONG = b"-" * 70          # a prefix that takes every body over the 50-byte floor of the compressor


class Page:
    """one page: handler path, vary rules (rule name, xform, default, request header name or None), server cache
    preference (2 Full / 1 QueryMatters), body prefix, and the path or pattern its rule set is registered under"""

    def __init__(self, path, rules, spref=2, prefix=None, rule_path=Ellipsis, echo=None, picky=False, echo_query=True, handler=True):
        self.path, self.rules, self.spref, self.prefix = path, rules, spref, prefix
        self.echo_query = echo_query                    # QueryMatters pages: handler kind 5 (echoes the request's query)
        self.handler = handler                          # False: a rule set only (the path is served by an extension of kvarn)
        self.picky = picky                              # handler kind 6: no server caching for some tuples
        self.rule_path = path if rule_path is Ellipsis else rule_path
        self.echo = rules if echo is None else echo     # what the handler renders (normally the rules' tuple)


def gen_rules(rng, n=None, p_overlap=0.08):
    n = rng.choice([0, 1, 1, 2, 2, 2, 3, 3]) if n is None else n
    rules = []   # (rule name, xform, default, request header name or None)
    used = set()
    for _ in range(n):
        x = rng.random()
        if x < 0.15:
            name, rq = rng.choice(ODD_NAMES)
        elif x < 0.15 + p_overlap:
            name = rng.choice(OVERLAP_NAMES)
            rq = name.lower()
        else:
            name = rng.choice(NAMES)
            rq = name
        if name in used:      # duplicate rule names are allowed by add_rule; keep them rare
            if rng.random() < 0.7:
                continue
        used.add(name)
        xf = rng.choice([0, 0, 1, 1, 2, 3])
        rules.append((name, xf, rng.choice(DEFAULTS), rq))
    return rules


def rand_value(rng, xf, name=None):
    r = rng.random()
    if r < 0.12:
        return rng.choice(NONTEXT)
    if name == b"range" and r < 0.7:
        return rng.choice(RANGE_VALUES)       # (a range whose start is after its end fails sanitize: not a value of a rule header here)
    return rng.choice(VALUES[xf])


def rand_headers(rng, rules, p_absent=0.25, p_repeat=0.12, encodings=True):
    hdrs = []
    for (name, xf, d, rq) in rules:
        if rq is None:
            continue
        if rng.random() < p_absent:
            continue
        v = rand_value(rng, xf, rq)
        hdrs.append((rq, v))
        if rng.random() < p_repeat:       # repeated header: get() returns the first value; the second is of another class
            w = rand_value(rng, xf, rq)
            for _ in range(4):
                if _xf(xf, w) != _xf(xf, v):
                    break
                w = rand_value(rng, xf, rq)
            hdrs.append((rq, w))
    if encodings and rng.random() < 0.15 and not any(n == b"accept-encoding" for (n, _) in hdrs):
        hdrs.append((b"accept-encoding", rng.choice([b"gzip", b"br", b"identity", b"zstd, gzip"])))
    if rng.random() < 0.1:
        hdrs.append((b"x-unrelated", b"1"))
    return hdrs


def dump(target, nrules):
    return xl(xn(4), xb(target), xn(nrules))


def park(target, method=b"GET", addr=1, headers=(), body=b""):
    return xl(xn(5), xn(addr), xb(method), xb(target), xlist([xl(xb(k), xb(v)) for k, v in headers]), xb(body))


def release():
    return xl(xn(6))


def as_pages(pages):
    return [p if isinstance(p, Page) else Page(p[0], p[1]) for p in pages]


def config(pages, cache=True, default_ext=False, report=None, routes=None):
    """routes: [(public path, internal target "/./..."[?query])] - the Prime extension of harness/src/c05.rs (cfg ovroutes)"""
    pages = as_pages(pages)
    hs, vs, seen = [], [], set()
    for i, pg in enumerate(pages):
        tup = [((rq if rq is not None else b"zz-never-sent"), xf, d) for (_, xf, d, rq) in pg.echo]
        prefix = pg.prefix if pg.prefix is not None else b"T%d" % i
        # QueryMatters pages echo the query too (handler kind 5, harness/src/c05.rs): a variant served for another
        # query is then visible in the body
        # picky pages (handler kind 6, harness/src/c05.rs): the handler declares no server caching for the tuples whose
        # first component is empty or starts with 'n', 'z', '0': variants that handle_vary_missing must not admit
        if pg.handler:
            hs.append(pipe.H(pg.path, kind=6 if pg.picky else 5 if pg.spref == 1 and pg.echo_query else 3, body=prefix, spref=pg.spref,
                             tuple_=tup))
        if pg.rule_path is not None and pg.rule_path not in seen and (pg.rules or i % 2 == 0 or pg.rule_path != pg.path):
            seen.add(pg.rule_path)
            vs.append(pipe.vary_rule(pg.rule_path, [(n, xf, d) for (n, xf, d, _) in pg.rules]))
    extra = {"ovroutes": [xl(xb(a), xb(b)) for (a, b) in routes]} if routes else {}
    return pipe.cfg(cache=cache, default_ext=default_ext, handlers=hs, vary=vs, report=[xb(r) for r in (report or REPORT)],
                    disable_ims=False, **extra)


def dumps(pages):
    return [dump(pg.path, len(pg.rules)) for pg in as_pages(pages)]


def history_ops(first, second, pages):
    return list(first) + dumps(pages) + list(second) + dumps(pages)


def mk(cfg, ops, kind, spec=True, comp="vary.run"):
    return Case(comp, pipe.scenario(cfg, ops), "vary.spec" if spec else None, {"kind": kind})


def request_set(rng, path, rules, k, methods=(b"GET",), p_query=0.1, queries=3, **kw):
    return [pipe.req(path + (b"?q=%d" % rng.randrange(queries) if rng.random() < p_query else b""), method=rng.choice(methods),
                     addr=rng.randrange(1, 4), headers=rand_headers(rng, rules, **kw)) for _ in range(k)]


def exhaustive_orders(rng, k, kind, nsets):
    """all arrival orders of k requests to one page"""
    cases = []
    for _ in range(nsets):
        rules = gen_rules(rng, rng.choice([1, 2, 2, 3]))
        pages = [Page(b"/v", rules, prefix=LONG if rng.random() < 0.25 else None)]
        cfg = config(pages)
        reqs = request_set(rng, b"/v", rules, k, methods=(b"GET", b"GET", b"GET", b"HEAD"))
        second = list(reqs)
        rng.shuffle(second)
        for perm in itertools.permutations(range(k)):
            cases.append(mk(cfg, history_ops([reqs[i] for i in perm], second, pages), "orders-%d" % k))
    return cases


def random_history(rng, n_lo, n_hi):
    npages = rng.choice([1, 1, 2, 3])
    paths = [b"/v", b"/w", b"/dir/x"][:npages]
    pages = [Page(p, gen_rules(rng), prefix=LONG + p if rng.random() < 0.2 else None) for p in paths]
    cfg = config(pages, cache=rng.random() > 0.04)
    ops = []
    n = rng.randrange(n_lo, n_hi)
    pool = []
    for pg in pages:
        pool += request_set(rng, pg.path, pg.rules, rng.randrange(3, 9), methods=(b"GET", b"GET", b"GET", b"GET", b"HEAD", b"POST"))
    for _ in range(n):
        r = rng.random()
        if r < 0.04:
            ops.append(pipe.clear_page(rng.choice(paths)))
        elif r < 0.055:
            ops.append(pipe.clear_all())
        elif r < 0.12:
            ops.append(rng.choice(dumps(pages)))
        else:
            ops.append(rng.choice(pool))
    ops += dumps(pages)
    return mk(cfg, ops, "random")


def many_variants(rng):
    """one page, >= 4 distinct tuples in adversarial arrival orders (descending, zig-zag, random)"""
    rules = [(b"x-a", 0, rng.choice(DEFAULTS), b"x-a")] + (gen_rules(rng, 1) if rng.random() < 0.5 else [])
    rules = [r for i, r in enumerate(rules) if i == 0 or r[0] != b"x-a"]
    pages = [Page(b"/v", rules)]
    cfg = config(pages)
    vals = rng.sample(VALUES[0], rng.randrange(4, 9))
    mode = rng.choice(["desc", "asc", "zigzag", "random"])
    if mode == "desc":
        vals.sort(reverse=True)
    elif mode == "asc":
        vals.sort()
    elif mode == "zigzag":
        vals.sort()
        vals = [vals[i // 2] if i % 2 == 0 else vals[-1 - i // 2] for i in range(len(vals))]
    reqs = []
    for v in vals:
        hd = [(b"x-a", v)]
        for (name, xf, d, rq) in rules[1:]:
            if rq is not None and rng.random() < 0.6:
                hd.append((rq, rand_value(rng, xf)))
        reqs.append(pipe.req(b"/v", headers=hd))
    second = list(reqs)
    rng.shuffle(second)
    return mk(cfg, history_ops(reqs, second, pages), "many-" + mode)


# tuples whose components run together to the same text: only a comparison component by component tells them apart
AMBIGUOUS = [
    [(b"ab", b"c"), (b"a", b"bc"), (b"abc", b""), (b"", b"abc")],
    [(b"en", b""), (b"", b"en"), (b"e", b"n")],
    [(b"a", b"a"), (b"aa", b""), (b"", b"aa")],
    [(b"x-b", b"y"), (b"x", b"-by"), (b"x-", b"by")],
    [(b"a", b"b", b"c"), (b"ab", b"", b"c"), (b"a", b"", b"bc"), (b"", b"abc", b""), (b"abc", b"", b"")],
    [(b"sv", b"en", b""), (b"s", b"ven", b""), (b"sv", b"e", b"n"), (b"", b"", b"sven")],
]


def ambiguous(rng, all_orders=True):
    """rules that keep the value's letters (lower-casing), values whose concatenation coincides: every arrival order"""
    group = rng.choice(AMBIGUOUS)
    n = len(group[0])
    names = [b"x-a", b"x-b", b"x-c"][:n]
    rules = [(nm, 0, rng.choice([b"", b"", b"a", b"dflt"]), nm) for nm in names]
    pages = [Page(b"/v", rules)]
    cfg = config(pages)
    tuples = list(group)
    rng.shuffle(tuples)
    tuples = tuples[:rng.choice([2, 3, 3, 4])]
    reqs = []
    for t in tuples:
        hd = []
        for nm, v in zip(names, t):
            # an absent header selects the default: with default "" that is one more way to the empty component
            if v == b"" and rules[names.index(nm)][2] == b"" and rng.random() < 0.5:
                continue
            hd.append((nm, v.upper() if rng.random() < 0.2 else v))
        reqs.append(pipe.req(b"/v", headers=hd))
    cases = []
    perms = list(itertools.permutations(range(len(reqs)))) if all_orders else [tuple(rng.sample(range(len(reqs)), len(reqs)))]
    for perm in perms[:24]:
        second = list(reqs)
        rng.shuffle(second)
        cases.append(mk(cfg, history_ops([reqs[i] for i in perm], second, pages), "ambiguous"))
    return cases


def query_matters(rng):
    """pages whose server cache preference is QueryMatters (cache key = path + query) with vary rules: the second
    lookup of handle_vary_missing and its re-insert run under a PathQuery key"""
    rules = gen_rules(rng, rng.choice([1, 1, 2]))
    pages = [Page(b"/p", rules, spref=1), Page(b"/f", gen_rules(rng, 1), spref=2)]
    cfg = config(pages)
    pool = request_set(rng, b"/p", rules, rng.randrange(4, 9), methods=(b"GET", b"GET", b"GET", b"HEAD"), p_query=0.8, queries=3)
    # the same headers under another query, and the other way round
    for r in list(pool)[:3]:
        hdrs = [(h[1][0][1], h[1][1][1]) for h in r[1][4][1]]
        pool.append(pipe.req(b"/p?q=%d" % rng.randrange(3), headers=hdrs))
    pool += request_set(rng, b"/f", pages[1].rules, 3, p_query=0.5)
    ops = []
    for _ in range(rng.randrange(8, 20)):
        r = rng.random()
        if r < 0.05:
            ops.append(pipe.clear_page(rng.choice([b"/p", b"/p?q=1", b"/f"])))
        elif r < 0.12:
            ops.append(dump(rng.choice([b"/p", b"/p?q=0", b"/p?q=1", b"/p?q=2"]), len(rules)))
        else:
            ops.append(rng.choice(pool))
    ops += [dump(t, len(rules)) for t in (b"/p", b"/p?q=0", b"/p?q=1", b"/p?q=2")]
    return mk(cfg, ops, "query-matters", spec=False)


def with_prime(rng):
    """the default extensions (Prime uri_redirect: "<p>/" -> "<p>/index.html", "<p>." -> "<p>.html") in front of pages
    with vary rules: the rules are those of the rewritten path; rule sets registered under patterns ("<prefix>*")"""
    r1, r2, r3 = gen_rules(rng, rng.choice([1, 2])), gen_rules(rng, rng.choice([1, 2])), gen_rules(rng, 1)
    shared = rng.random() < 0.5
    pages = [Page(b"/dir/index.html", r1, rule_path=b"/dir/*" if shared else b"/dir/index.html"),
             Page(b"/p.html", r2),
             Page(b"/dir/x", r1 if shared else r3, rule_path=None if shared else b"/dir/x")]
    targets = [[b"/dir/", b"/dir/index.html", b"/dir/index."], [b"/p.", b"/p.html"], [b"/dir/x"]]
    if not shared:
        # a path that only *starts* like one with an exact rule set has none (or the one of a pattern)
        pat = rng.random() < 0.5
        pages.append(Page(b"/dir/xy", gen_rules(rng, 1) if pat else [], rule_path=b"/dir/xy*" if pat else None))
        targets.append([b"/dir/xy"])
    if rng.random() < 0.4:      # a longer pattern and an exact path win over "/dir/*"
        pages.append(Page(b"/dir/sub/y", r3, rule_path=rng.choice([b"/dir/sub/*", b"/dir/sub/y"])))
        targets.append([b"/dir/sub/y"])
    cfg = config(pages, default_ext=rng.random() < 0.8)
    pool = []
    for pg, ts in zip(pages, targets):
        for t in ts:
            pool += request_set(rng, t, pg.rules, 2, methods=(b"GET", b"GET", b"HEAD"), p_query=0.0)
    ops = [rng.choice(pool) for _ in range(rng.randrange(8, 20))]
    if rng.random() < 0.3:
        ops.insert(rng.randrange(len(ops)), pipe.clear_page(rng.choice([b"/dir/index.html", b"/p.html", b"/dir/"])))
    ops += dumps(pages)
    return mk(cfg, ops, "prime+patterns")


# ---- family 'specificity' (seeded/C05-9): rule sets in which an exact-path rule stands next to wildcard rules covering the same page — "<path>*"
# (one byte LONGER than the exact path), "<path minus its last byte>*" (exactly AS LONG: a tie when rules are ordered by length alone, decided by
# the order of addition), shorter prefixes and "/*" — every rule set varying on ANOTHER header, added in both orders and in random order.
# extensions::RuleSet::get must answer with the most specific rule: exact beats wildcard, the longer wildcard prefix beats the shorter.
SPEC_BASES = [b"/docs", b"/lang", b"/api/v1", b"/d/page.html", b"/ab"]


def specificity(rng, order_mode=None, wire_=False):
    base = rng.choice(SPEC_BASES)
    names = rng.sample([b"x-a", b"x-b", b"x-c", b"accept-language"], 4)
    star, tie, short, root = base + b"*", base[:-1] + b"*", base[:2] + b"*", b"/*"
    layout = rng.choice([[base, star], [base, tie], [base, star, tie], [base, star, tie, short], [base, tie, root], [star, tie], [base, star, root],
                         [tie, short, root]])
    layout = [p for k, p in enumerate(layout) if p not in layout[:k]]
    rule_of = {}
    for k, pat in enumerate(layout):
        xf = rng.choice([0, 0, 1, 2])
        rule_of[pat] = [(names[k], xf, rng.choice([b"dflt", b"sv", b"zz", b"k%d" % k]), names[k])] + (gen_rules(rng, 1, p_overlap=0.0) if rng.random() < 0.15 else [])
        rule_of[pat] = [r for j, r in enumerate(rule_of[pat]) if j == 0 or (r[0].lower() not in [n.lower() for n in names] and r[3] is not None)]
    order = list(layout)
    order_mode = order_mode if order_mode is not None else rng.choice(["fwd", "rev", "shuffle"])
    if order_mode == "rev":
        order.reverse()
    elif order_mode == "shuffle":
        rng.shuffle(order)
    # the page each pattern is the most specific rule of
    own_page = {base: base, star: base + b"x", tie: base[:-1] + b"~q", short: base[:2] + b"~", root: b"/~other"}
    pages = [Page(own_page[pat], rule_of[pat], rule_path=pat, prefix=b"S%d" % k) for k, pat in enumerate(order)]
    if base not in layout:
        # the page itself without an exact rule: the longest wildcard covering it
        best = max([p for p in layout if base.startswith(p[:-1])], key=len)
        pages.append(Page(base, rule_of[best], rule_path=None, prefix=b"SB"))
    cfg = config(pages, report=WIRE_REPORT if wire_ else None)
    every = [r for pat in layout for r in rule_of[pat]]
    # directed: the exact page under two values of ITS OWN header that the transformation keeps apart (the wildcards' headers absent, then
    # present), then the pages of the wildcards
    focus = pages[-1] if base not in layout else [pg for pg in pages if pg.path == base][0]
    (n0, xf0, d0, _) = focus.rules[0]
    v1, v2 = rng.sample(VALUES[xf0], 2)
    for _ in range(8):
        if len({_xf(xf0, v1), _xf(xf0, v2), d0}) == 3:
            break
        v1, v2 = rng.sample(VALUES[xf0], 2)
    others = [(r[3], rand_value(rng, r[1])) for r in every if r[3] != n0 and rng.random() < 0.5]
    others = [(n, v) for (n, v) in others if _text(v)]
    ops = [pipe.req(base, headers=[(n0, v1)]), pipe.req(base, headers=[(n0, v2)]), pipe.req(base), pipe.req(base, headers=[(n0, v1)] + others),
           pipe.req(base, headers=[(n0, v2)] + others)]
    pool = []
    for pg in pages:
        pool += request_set(rng, pg.path, every, rng.randrange(2, 5), methods=(b"GET", b"GET", b"GET", b"HEAD"), p_query=0.0, p_repeat=0.05)
    for _ in range(rng.randrange(4, 12)):
        r = rng.random()
        if r < 0.05:
            ops.append(pipe.clear_page(rng.choice([pg.path for pg in pages])))
        elif r < 0.12:
            ops.append(rng.choice(dumps(pages)))
        else:
            ops.append(rng.choice(pool))
    if wire_:
        # over the loopback connection: what SendKind::send wrote (the vary line of the most specific rule, the body of the own tuple)
        wops = []
        for o in ops:
            if o[1][0][1] == 4:
                continue
            if o[1][0][1] != 0:
                wops.append(o)
                continue
            hdrs = [(h[1][0][1], h[1][1][1]) for h in o[1][4][1]]
            hdrs = [(n, v) for (n, v) in hdrs if v == v.strip(b" \t")]
            hdrs = [(n, v) for k, (n, v) in enumerate(hdrs) if n not in [m for (m, _) in hdrs[:k]]]
            wops.append(pipe.req(o[1][3][1], method=o[1][2][1], headers=hdrs))
        return mk(cfg, wops, "specificity-wire", spec=False, comp="vary.wire")
    ops += dumps(pages)
    return mk(cfg, ops, "specificity-" + order_mode)


def empty_values(rng):
    """seeded/C03-11: a rule header that is absent (-> the rule's default), present with an EMPTY value (-> transformation("")) and present
    with blanks only: three different requests whenever transformation("") is not the default; every arrival order"""
    xf = rng.choice([0, 1, 2, 3])
    d = rng.choice([b"dflt", b"sv", b"en", b"zz"])
    rules = [(b"accept-language" if rng.random() < 0.5 else b"x-a", xf, d, None)]
    rules = [(rules[0][0], xf, d, rules[0][0])] + (gen_rules(rng, 1, p_overlap=0.0) if rng.random() < 0.3 else [])
    rules = [r for j, r in enumerate(rules) if j == 0 or (r[3] is not None and r[0].lower() != rules[0][0])]
    pages = [Page(b"/v", rules, prefix=LONG if rng.random() < 0.2 else None)]
    cfg = config(pages)
    n = rules[0][0]
    reqs = [pipe.req(b"/v"), pipe.req(b"/v", headers=[(n, b"")]), pipe.req(b"/v", headers=[(n, rng.choice([b" ", b"\t", b"  "]))]),
            pipe.req(b"/v", method=rng.choice([b"GET", b"HEAD"]), headers=[(n, rng.choice([d, b"En", b"a"]))])]
    cases = []
    for perm in itertools.permutations(range(4)):
        if rng.random() < 0.5:
            continue
        second = list(reqs)
        rng.shuffle(second)
        cases.append(mk(cfg, history_ops([reqs[i] for i in perm], second, pages), "empty-values"))
    return cases


def conditional(rng):
    """If-Modified-Since (start + 100 s: fresh for every entry; start - 100 s: for none) on requests whose own tuple is
    stored / was never computed"""
    rules = gen_rules(rng, rng.choice([1, 2]))
    while not any(rq for (_, _, _, rq) in rules):
        rules = gen_rules(rng, 2)
    pages = [Page(b"/v", rules)]
    cfg = config(pages)
    pool = request_set(rng, b"/v", rules, rng.randrange(3, 7), methods=(b"GET", b"GET", b"HEAD"), p_query=0.0, encodings=False)
    ops = []
    for _ in range(rng.randrange(5, 14)):
        r = rng.choice(pool)
        x = rng.random()
        if x < 0.45:
            hdrs = [(h[1][0][1], h[1][1][1]) for h in r[1][4][1]]
            hdrs.insert(rng.randrange(len(hdrs) + 1), (b"if-modified-since", b"@T+100" if rng.random() < 0.7 else b"@T-100"))
            r = pipe.req(b"/v", method=r[1][2][1], headers=hdrs)
        ops.append(r)
        if rng.random() < 0.08:
            ops.append(pipe.clear_page(b"/v"))
    ops += dumps(pages)
    return mk(cfg, ops, "if-modified-since", spec=False)


WIRE_REPORT = [b"vary"]
RANGES = [b"bytes=0-1", b"bytes=1-3", b"bytes=0-0", b"bytes=2-1000", b"bytes=100-200", b"bytes=4000-", b"bytes=5-2", b"bytes=3-3",
          b"bytes=0-", b"bytes=-5", b"bytes=9999-10000", b"bytes=40-60"]


def wire(rng):
    """the same kind of history over one HTTP/1.1 connection (component vary.wire): what SendKind::send wrote"""
    rules = gen_rules(rng, rng.choice([0, 1, 1, 2, 3]))
    r2 = gen_rules(rng, rng.choice([1, 2]))
    # /e: a page with rules whose body is empty (the handler renders nothing)
    pages = [Page(b"/v", rules, prefix=LONG if rng.random() < 0.2 else None), Page(b"/e", r2, prefix=b"", echo=[]), Page(b"/q", r2, spref=1)]
    cfg = config(pages, default_ext=rng.random() < 0.2, report=WIRE_REPORT)
    ops = []
    for _ in range(rng.randrange(5, 16)):
        pg = rng.choice(pages[:2] if rng.random() < 0.8 else pages)
        x = rng.random()
        target = pg.path + (b"?q=%d" % rng.randrange(2) if pg.spref == 1 or rng.random() < 0.05 else b"")
        if x < 0.06:
            target = rng.choice([b"/nope", b"/./v", b"/v/../v"])
        # no repeated header lines: kvarn's HTTP/1 parser keeps the last one (HeaderMap::insert, utils/src/parse.rs — C07's
        # subject), handle_cache then sees a request with that one value; no leading/trailing white space in a value
        hdrs = rand_headers(rng, pg.rules, encodings=False, p_repeat=0.0)
        hdrs = [(n, v) for (n, v) in hdrs if v == v.strip(b" \t")]
        hdrs = [(n, v) for k, (n, v) in enumerate(hdrs) if n not in [m for (m, _) in hdrs[:k]]]     # (rules with the same header)
        y = rng.random()
        if x < 0.06:
            # (a range of an error page: the run compares error pages by class, not by text)
            hdrs = [(n, v) for (n, v) in hdrs if n != b"range"]
        elif y < 0.4:
            if not any(n == b"range" for (n, _) in hdrs):
                hdrs.append((b"range", rng.choice(RANGES)))
        elif y < 0.5:
            # (never together with a range: kvarn cuts the range out of the *coded* body - the selected representation -, which
            # the harness cannot decode: C06 / C09's subject)
            if not any(n in (b"accept-encoding", b"range") for (n, _) in hdrs):
                hdrs.append((b"accept-encoding", rng.choice([b"gzip", b"br", b"identity"])))
        if rng.random() < 0.12:
            hdrs.append((b"if-modified-since", b"@T+100" if rng.random() < 0.7 else b"@T-100"))
        ops.append(pipe.req(target, method=rng.choice([b"GET", b"GET", b"GET", b"HEAD", b"POST"]), headers=hdrs,
                            body=b""))
        if rng.random() < 0.05:
            ops.append(pipe.clear_page(pg.path))
    return mk(cfg, ops, "wire", spec=False, comp="vary.wire")


def picky(rng, wire_=False):
    """a page whose variants differ in cacheability (handler kind 6): the refused ones are recomputed by every request and
    never enter the item (kvarn 8fe98d4), also when the date of a conditional request is fresh for the item (832d735)"""
    rules = gen_rules(rng, rng.choice([1, 1, 2]))
    while not rules or rules[0][3] is None:
        rules = gen_rules(rng, rng.choice([1, 2]))
    pages = [Page(b"/v", rules, picky=True)]
    cfg = config(pages, report=WIRE_REPORT if wire_ else None)
    xf0 = rules[0][1]
    firsts = {0: [b"en", b"zz", b"", b"Nope", b"a", b"de", b"n"], 1: [b"apple", b"", b"zebra", b"Mango"], 2: [b"", b"abc", b"a", b"ab"],
              3: [b"x", b""]}[xf0]
    pool = []
    for _ in range(rng.randrange(4, 9)):
        hdrs = rand_headers(rng, rules[1:], encodings=False, p_repeat=0.0 if wire_ else 0.12)
        hdrs = [(n, v) for (n, v) in hdrs if n != rules[0][3] and (not wire_ or v == v.strip(b" \t"))]
        if wire_:
            hdrs = [(n, v) for k, (n, v) in enumerate(hdrs) if n not in [m for (m, _) in hdrs[:k]]]
        if rng.random() < 0.85:
            hdrs.insert(rng.randrange(len(hdrs) + 1), (rules[0][3], rng.choice(firsts)))
        pool.append(hdrs)
    ops = []
    for _ in range(rng.randrange(8, 18)):
        hdrs = list(rng.choice(pool))
        if rng.random() < 0.3:
            hdrs.append((b"if-modified-since", b"@T+100" if rng.random() < 0.8 else b"@T-100"))
        if wire_ and rng.random() < 0.2 and not any(n == b"range" for (n, _) in hdrs):
            hdrs.append((b"range", rng.choice(RANGES)))
        ops.append(pipe.req(b"/v", method=rng.choice([b"GET", b"GET", b"GET", b"HEAD"]), addr=1 if wire_ else rng.randrange(1, 4), headers=hdrs))
        x = rng.random()
        if x < 0.06:
            ops.append(pipe.clear_page(b"/v"))
        elif x < 0.2 and not wire_:
            ops += dumps(pages)
    if not wire_:
        ops += dumps(pages)
    return mk(cfg, ops, "picky-wire" if wire_ else "picky", spec=False, comp="vary.wire" if wire_ else "vary.run")


def overlap(rng, wire_=False):
    """rule headers named like (pieces of) the fixed part of the vary header - accept, range, accept-encoding, encoding, ran,
    e ... -: each is advertised after "accept-encoding, range" like any other rule header (a rule on `range` or
    `accept-encoding` itself is listed a second time: the code does not merge, and the property asks for the fixed part
    plus each rule header), and selects variants like any other"""
    first = rng.choice(OVERLAP_NAMES)
    xf = rng.choice([0, 0, 1, 2])
    rules = [(first, xf, rng.choice(DEFAULTS), first.lower())]
    for r in gen_rules(rng, rng.choice([0, 1, 2]), p_overlap=0.4):
        if r[0].lower() != first.lower():
            rules.append(r)
    rng.shuffle(rules)
    pages = [Page(b"/v", rules, prefix=LONG if rng.random() < 0.2 else None)]
    cfg = config(pages, report=WIRE_REPORT if wire_ else None)
    reqs = request_set(rng, b"/v", rules, rng.randrange(3, 7), methods=(b"GET", b"GET", b"GET", b"HEAD"), p_query=0.0,
                       p_repeat=0.0 if wire_ else 0.12, encodings=False)
    if wire_:
        ops = []
        for r in reqs + [rng.choice(reqs) for _ in range(3)]:
            hdrs = [(h[1][0][1], h[1][1][1]) for h in r[1][4][1]]
            hdrs = [(n, v) for (n, v) in hdrs if v == v.strip(b" \t")]
            hdrs = [(n, v) for k, (n, v) in enumerate(hdrs) if n not in [m for (m, _) in hdrs[:k]]]
            if rng.random() < 0.3 and not any(n == b"range" for (n, _) in hdrs):
                hdrs.append((b"range", rng.choice(RANGES)))
            ops.append(pipe.req(b"/v", method=r[1][2][1], headers=hdrs))
        return mk(cfg, ops, "overlap-wire", spec=False, comp="vary.wire")
    second = list(reqs)
    rng.shuffle(second)
    return mk(cfg, history_ops(reqs, second, pages), "overlap")


def internal_routes(rng, mode="run"):
    """pages served through an internal route: a Prime extension (cfg ovroutes, harness/src/c05.rs) answers the public path
    with an internal URI "/./..." - the request keeps its URI, the page is handled, looked up and cached under the internal
    one, and the vary rules are those registered for the INTERNAL path (in the arm of handle_cache that creates the item
    and in handle_vary_missing alike), not those of the public path (which has a rule set of its own, on other headers).
    Two public paths may share one internal page; with the default extensions the redirect Prime runs first
    ("/d/" -> "/d/index.html" -> "/./d") and a foreign `origin` is rerouted to "/./cors_fail" (rules on it are advertised)."""
    wire_ = mode == "wire"
    r_int = gen_rules(rng, rng.choice([1, 1, 2]), p_overlap=0.05)
    while not any(rq for (_, _, _, rq) in r_int):
        r_int = gen_rules(rng, rng.choice([1, 2]), p_overlap=0.05)
    names = {r[0].lower() for r in r_int}
    r_pub = [r for r in gen_rules(rng, rng.choice([0, 1, 1, 2]), p_overlap=0.05) if r[0].lower() not in names]
    r_cors = gen_rules(rng, 1, p_overlap=0.0)
    default_ext = rng.random() < 0.35
    qm = rng.random() < 0.2 and mode != "spec"
    internal = b"/./lang"
    # (the handler of an internal route does not render the URI of the page it is served for: kvarn caches it under the internal URI)
    pages = [Page(internal, r_int, spref=1 if qm else 2, prefix=LONG + b"I" if rng.random() < 0.15 else b"I", echo_query=False),
             Page(b"/hi", r_pub, prefix=b"P"),
             Page(b"/w", r_pub if rng.random() < 0.5 else r_int, prefix=b"W")]
    publics = [b"/hi", b"/hej"]
    routes = [(b"/hi", internal + (b"?x=1" if qm and rng.random() < 0.5 else b"")), (b"/hej", internal)]
    if default_ext:
        pages.append(Page(b"/./d", r_int, prefix=b"D"))
        routes.append((b"/d/index.html", b"/./d"))
        publics.append(b"/d/")
        pages.append(Page(b"/./cors_fail", r_cors, handler=False))      # (a rule set only: kvarn's own handler answers)
    cfg = config(pages, default_ext=default_ext, report=WIRE_REPORT if wire_ else None, routes=routes)
    both = r_int + r_pub
    pool = []
    for t in publics + [b"/w"]:
        pool += request_set(rng, t, both, rng.randrange(2, 5), methods=(b"GET", b"GET", b"GET", b"HEAD"), p_query=0.3 if qm else 0.05,
                            p_repeat=0.0 if wire_ else 0.1, encodings=False)
    if wire_:
        clean = []
        for r in pool:
            hdrs = [(h[1][0][1], h[1][1][1]) for h in r[1][4][1]]
            hdrs = [(n, v) for (n, v) in hdrs if v == v.strip(b" \t")]
            hdrs = [(n, v) for k, (n, v) in enumerate(hdrs) if n not in [m for (m, _) in hdrs[:k]]]
            if rng.random() < 0.35 and not any(n == b"range" for (n, _) in hdrs):
                hdrs.append((b"range", rng.choice(RANGES)))
            clean.append(pipe.req(r[1][3][1], method=r[1][2][1], headers=hdrs))
        pool = clean
    ops = []
    for _ in range(rng.randrange(8, 18)):
        x = rng.random()
        r = rng.choice(pool)
        if default_ext and x < 0.12:
            hdrs = [(h[1][0][1], h[1][1][1]) for h in r[1][4][1]]
            hdrs.append((b"origin", rng.choice([b"https://evil.example", b"https://evil.example", b"http://localhost"])))
            r = pipe.req(r[1][3][1], method=r[1][2][1], headers=hdrs)
        elif mode != "spec" and x < 0.22:
            hdrs = [(h[1][0][1], h[1][1][1]) for h in r[1][4][1]]
            hdrs.append((b"if-modified-since", b"@T+100" if rng.random() < 0.7 else b"@T-100"))
            r = pipe.req(r[1][3][1], method=r[1][2][1], headers=hdrs)
        ops.append(r)
        y = rng.random()
        if y < 0.05:
            ops.append(pipe.clear_page(rng.choice([internal, b"/hi", internal + b"?x=1"])))
        elif y < 0.12 and not wire_:
            ops.append(dump(rng.choice([internal, b"/hi", internal + b"?x=1"]), len(r_int)))
    if not wire_:
        ops += [dump(internal, len(r_int)), dump(internal + b"?x=1", len(r_int)), dump(b"/hi", len(r_pub)), dump(b"/hej", 0)]
        if default_ext:
            ops.append(dump(b"/./d", len(r_int)))
    return mk(cfg, ops, "internal-route" + ("-wire" if wire_ else ""), spec=(mode == "spec"), comp="vary.wire" if wire_ else "vary.run")


def internal_interleaved(rng):
    """a request to an internal route suspended in its handler while the item is cleared / another variant arrives: the arm of
    handle_vary_missing that creates a new item takes the rules of the internal path, too"""
    rules = [(b"x-a", 0, b"dflt", b"x-a")]
    r_pub = [(b"x-b", 0, b"p", b"x-b")] if rng.random() < 0.6 else []
    pages = [Page(b"/./v", rules, prefix=b"I"), Page(b"/v", r_pub, prefix=b"P")]
    cfg = config(pages, routes=[(b"/v", b"/./v")])
    vals = rng.sample([b"a", b"b", b"c", b"d", b"e", b"f"], 5)
    R = lambda v: pipe.req(b"/v", headers=[(b"x-a", v), (b"x-b", rng.choice([b"m", b"n"]))])
    pre = [R(v) for v in vals[:rng.randrange(1, 3)]]
    mid = [pipe.clear_page(b"/./v")] if rng.random() < 0.6 else []
    mid += [R(v) for v in vals[3:3 + rng.randrange(0, 2)]]
    ops = pre + [park(b"/v", headers=[(b"x-a", vals[2]), (b"x-b", b"m")])] + mid + [release(), dump(b"/./v", 1), dump(b"/v", len(r_pub))]
    ops += [R(v) for v in vals] + [dump(b"/./v", 1)]
    return mk(cfg, ops, "internal-route-interleaved", spec=False)


def malformed(rng):
    """rule names that add_rule rejects (panic while the host is built), odd header values"""
    bad = rng.choice([b"x\x01a", b"x\x7f", b"caf\xc3\xa9", b"\x00"])
    pages = [Page(b"/v", [(bad, 0, b"d", None)])]
    cfg = config(pages)
    return mk(cfg, [pipe.req(b"/v"), dump(b"/v", 1)], "malformed-rule-name", spec=False)


def interleaved(rng):
    """a request suspended in its handler while others complete (stale position in handle_vary_missing)"""
    rules = [(b"x-a", 0, b"dflt", b"x-a")]
    qm = rng.random() < 0.25
    pages = [Page(b"/v", rules, spref=1 if qm else 2)]
    cfg = config(pages)
    vals = rng.sample([b"a", b"b", b"c", b"d", b"e", b"f"], 5)
    t = b"/v?q=1" if qm else b"/v"
    pre = [pipe.req(t, headers=[(b"x-a", v)]) for v in vals[:rng.randrange(1, 3)]]
    mid = [pipe.req(t, headers=[(b"x-a", v)]) for v in vals[3:3 + rng.randrange(0, 2)]]
    if qm and rng.random() < 0.5:
        mid.append(pipe.clear_page(t))
    ops = pre + [park(t, headers=[(b"x-a", vals[2])])] + mid + [release(), dump(t, 1)]
    ops += [pipe.req(t, headers=[(b"x-a", v)]) for v in vals] + [dump(t, 1)]
    return mk(cfg, ops, "interleaved", spec=False)


CORPUS = []


def corpus_cases():
    cases = []
    # three variants arriving in descending order, then re-requested
    rules = [(b"x-a", 0, b"dflt", b"x-a")]
    pages = [Page(b"/v", rules)]
    cfg = config(pages)
    for order in ([b"c", b"b", b"a"], [b"a", b"c", b"b"], [b"b", b"a", b"c", b"d"], [b"d", b"a", b"c", b"b", b"e"]):
        reqs = [pipe.req(b"/v", headers=[(b"x-a", v)]) for v in order]
        cases.append(mk(cfg, history_ops(reqs, reqs, pages), "corpus"))
    # default applied: absent, non-text, empty value; default equal to a class
    rules = [(b"x-a", 1, b"lo", b"x-a"), (b"x-b", 2, b"0", b"x-b")]
    pages = [Page(b"/v", rules)]
    cfg = config(pages)
    reqs = [pipe.req(b"/v"), pipe.req(b"/v", headers=[(b"x-a", b"\xe9")]), pipe.req(b"/v", headers=[(b"x-a", b"apple")]),
            pipe.req(b"/v", headers=[(b"x-a", b"")]), pipe.req(b"/v", headers=[(b"x-a", b"zebra"), (b"x-b", b"abc")]),
            pipe.req(b"/v", headers=[(b"x-b", b"\xff\xff\xff")]), pipe.req(b"/v", method=b"HEAD", headers=[(b"x-a", b"Zed")])]
    cases.append(mk(cfg, history_ops(reqs, reqs, pages), "corpus"))
    # mixed-case and non-token rule names
    rules = [(b"X-Up", 0, b"d", b"x-up"), (b"x bad", 0, b"never", None)]
    pages = [Page(b"/v", rules)]
    cfg = config(pages)
    reqs = [pipe.req(b"/v", headers=[(b"x-up", b"B")]), pipe.req(b"/v", headers=[(b"x-up", b"a")]), pipe.req(b"/v")]
    cases.append(mk(cfg, history_ops(reqs, reqs, pages), "corpus"))
    # a request suspended at the await of handle_vary_missing while the entry is replaced by a shorter one
    # (before the fix: Vec::insert panicked) / while another variant is inserted (before the fix: vector unsorted,
    # the next request for "b" recomputed it and stored it twice)
    rules = [(b"x-a", 0, b"dflt", b"x-a")]
    pages = [Page(b"/v", rules)]
    cfg = config(pages)

    def R(v, t=b"/v", **kw):
        return pipe.req(t, headers=[(b"x-a", v)] + list(kw.get("more", [])), method=kw.get("method", b"GET"))
    D = dump(b"/v", 1)
    cases.append(mk(cfg, [R(b"b"), R(b"c"), R(b"d"), park(b"/v", headers=[(b"x-a", b"e")]), pipe.clear_page(b"/v"), R(b"a"), release(),
                          D, R(b"e"), R(b"a"), D], "corpus-interleaved", spec=False))
    cases.append(mk(cfg, [R(b"a"), park(b"/v", headers=[(b"x-a", b"c")]), R(b"b"), release(), D, R(b"b"), R(b"c"), R(b"a"),
                          D], "corpus-interleaved", spec=False))
    cases.append(mk(cfg, [R(b"a"), park(b"/v", headers=[(b"x-a", b"c")]), R(b"c"), release(), D, R(b"c"), D],
                    "corpus-interleaved", spec=False))
    # tuples that run together to the same text: ("ab","c") / ("a","bc") / ("abc","") / ("","abc"), ("en","") / ("","en")
    rules = [(b"x-a", 0, b"", b"x-a"), (b"x-b", 0, b"", b"x-b")]
    pages = [Page(b"/v", rules)]
    cfg = config(pages)

    def T(a, b):
        return pipe.req(b"/v", headers=([(b"x-a", a)] if a else []) + ([(b"x-b", b)] if b else []))
    for order in ([(b"ab", b"c"), (b"a", b"bc")], [(b"a", b"bc"), (b"ab", b"c"), (b"abc", b""), (b"", b"abc")],
                  [(b"", b"en"), (b"en", b"")], [(b"", b"abc"), (b"abc", b""), (b"ab", b"c")]):
        reqs = [T(a, b) for a, b in order]
        cases.append(mk(cfg, history_ops(reqs, list(reversed(reqs)), pages), "corpus-ambiguous"))
    # QueryMatters page: a variant computed for ?x=1 is not the one of ?x=2; the re-insert keeps the PathQuery key
    pages = [Page(b"/p", [(b"x-a", 0, b"dflt", b"x-a")], spref=1)]
    cfg = config(pages)
    Dq = [dump(t, 1) for t in (b"/p?x=1", b"/p?x=2", b"/p")]
    cases.append(mk(cfg, [R(b"a", b"/p?x=1"), R(b"b", b"/p?x=1"), R(b"b", b"/p?x=2"), R(b"a", b"/p?x=2"), R(b"a", b"/p")] + Dq +
                    [R(b"b", b"/p?x=1"), R(b"a", b"/p?x=1"), R(b"b", b"/p?x=2"), R(b"c", b"/p"), pipe.clear_page(b"/p?x=1"), R(b"b", b"/p?x=1"),
                     R(b"b", b"/p?x=2")] + Dq, "corpus-query-matters", spec=False))
    # If-Modified-Since: a tuple that was never computed is computed (304 before kvarn 832d735: not_modified_only_for_stored_variant_v0_refuted),
    # full reply for an old date, 304 for the stored tuple
    pages = [Page(b"/v", [(b"x-a", 0, b"dflt", b"x-a")])]
    cfg = config(pages)
    cases.append(mk(cfg, [R(b"a"), R(b"zz", more=[(b"if-modified-since", b"@T+100")]), D, R(b"zz"), R(b"zz", more=[(b"if-modified-since", b"@T-100")]),
                          R(b"a", more=[(b"if-modified-since", b"@T+100")], method=b"HEAD"), D], "corpus-if-modified-since", spec=False))
    # on the wire: the 416 page that send() substitutes (wire_416_without_vary_v0_refuted), a range of a variant, HEAD, an empty
    # page and the 416 that replaces it, 404, 400, a conditional request for a tuple that is not stored, a 304 with a range (sent as it is)
    pages = [Page(b"/v", [(b"x-a", 0, b"dflt", b"x-a")]), Page(b"/e", [(b"x-a", 0, b"dflt", b"x-a")], prefix=b"", echo=[])]
    cfgw = config(pages, report=WIRE_REPORT)
    RG = lambda v: (b"range", v)
    cases.append(mk(cfgw, [R(b"a"), R(b"a", more=[RG(b"bytes=0-1")]), R(b"a", more=[RG(b"bytes=100-200")]), R(b"b", more=[RG(b"bytes=100-200")]),
                           R(b"a", more=[RG(b"bytes=5-2")]), R(b"a", method=b"HEAD"), R(b"a", b"/e"), R(b"a", b"/e", more=[RG(b"bytes=0-5")]),
                           R(b"a", b"/nope"), R(b"a", b"/./v"), R(b"zz", more=[(b"if-modified-since", b"@T+100")]),
                           R(b"a", more=[(b"if-modified-since", b"@T+100"), RG(b"bytes=0-1")]), R(b"zz"), pipe.clear_page(b"/v"),
                           R(b"zz", method=b"POST")], "corpus-wire", spec=False, comp="vary.wire"))
    # rule headers named like (pieces of) the fixed part of the vary header: each is advertised and selects variants (seeded C05-4:
    # a "don't list it twice" filter by substring dropped accept, range, accept-encoding, encoding, ran, e ...)
    for names in ([b"accept"], [b"range", b"x-a"], [b"accept-encoding", b"encoding"], [b"e", b"ran", b"accept-enc"]):
        rules = [(n, 0, b"dflt", n) for n in names]
        pages = [Page(b"/v", rules)]
        cfg = config(pages)
        reqs = [pipe.req(b"/v", headers=[(names[0], v)]) for v in (b"b", b"a", b"c")] + [pipe.req(b"/v")]
        cases.append(mk(cfg, history_ops(reqs, list(reversed(reqs)), pages), "corpus-overlap"))
    # an internal route: /hi and /hej are answered by a Prime with /./lang; the rules are those of /./lang in the arm that
    # creates the item (seeded C05-6 took those of /hi there) and in handle_vary_missing; /hi's own rule header does not matter
    r_int, r_pub = [(b"accept-language", 0, b"en", b"accept-language")], [(b"x-pub", 0, b"p", b"x-pub")]
    pages = [Page(b"/./lang", r_int, prefix=b"I"), Page(b"/hi", r_pub, prefix=b"P")]
    routes = [(b"/hi", b"/./lang"), (b"/hej", b"/./lang")]
    cfg = config(pages, routes=routes)

    def L(v, t=b"/hi", pub=b"m", more=(), method=b"GET"):
        return pipe.req(t, method=method, headers=[(b"accept-language", v), (b"x-pub", pub)] + list(more))
    DL = [dump(b"/./lang", 1), dump(b"/hi", 1)]
    cases.append(mk(cfg, [L(b"sv"), L(b"de"), L(b"sv", pub=b"n"), L(b"de", t=b"/hej"), L(b"fr", t=b"/hej")] + DL +
                    [L(b"fr"), pipe.clear_page(b"/hi"), L(b"sv"), pipe.clear_page(b"/./lang"), L(b"sv")] + DL, "corpus-internal-route"))
    cases.append(mk(cfg, [L(b"sv"), park(b"/hi", headers=[(b"accept-language", b"de"), (b"x-pub", b"m")]), pipe.clear_page(b"/./lang"), release()] + DL +
                    [L(b"de"), L(b"sv")] + DL, "corpus-internal-route", spec=False))
    # ... and on the wire: the 416 page that replaces a variant of the internal route lists the rule header of /./lang
    # (x-pub before kvarn 31ad067: wire_416_internal_route_v0_refuted)
    cfgw = config(pages, routes=routes, report=WIRE_REPORT)
    cases.append(mk(cfgw, [L(b"de"), L(b"de", more=[(b"range", b"bytes=100-200")]), L(b"de", more=[(b"range", b"bytes=0-1")]),
                           L(b"sv", t=b"/hej", more=[(b"range", b"bytes=100-200")]), L(b"sv", method=b"HEAD")],
                    "corpus-internal-route-wire", spec=False, comp="vary.wire"))
    return cases


def generate(rng, tier):
    cases = corpus_cases()
    if tier == "quick":
        cases += exhaustive_orders(rng, 3, "orders", 6)      # 6 * 6
        cases += exhaustive_orders(rng, 4, "orders", 4)      # 4 * 24
        cases += exhaustive_orders(rng, 5, "orders", 1)      # 120
        cases += [many_variants(rng) for _ in range(100)]
        cases += [random_history(rng, 6, 22) for _ in range(220)]
        for _ in range(8):
            cases += ambiguous(rng)
        cases += [query_matters(rng) for _ in range(40)]
        cases += [with_prime(rng) for _ in range(40)]
        cases += [specificity(rng, m) for m in ("fwd", "rev", "shuffle") for _ in range(12)]
        cases += [specificity(rng, m, True) for m in ("fwd", "rev") for _ in range(4)]
        for _ in range(4):
            cases += empty_values(rng)
        cases += [conditional(rng) for _ in range(30)]
        cases += [wire(rng) for _ in range(60)]
        cases += [malformed(rng) for _ in range(4)]
        cases += [interleaved(rng) for _ in range(30)]
        cases += [picky(rng) for _ in range(40)]
        cases += [picky(rng, True) for _ in range(12)]
        cases += [overlap(rng) for _ in range(40)]
        cases += [overlap(rng, True) for _ in range(12)]
        cases += [internal_routes(rng, "spec") for _ in range(30)]
        cases += [internal_routes(rng, "run") for _ in range(40)]
        cases += [internal_routes(rng, "wire") for _ in range(20)]
        cases += [internal_interleaved(rng) for _ in range(12)]
    else:
        cases += exhaustive_orders(rng, 2, "orders", 20)
        cases += exhaustive_orders(rng, 3, "orders", 60)
        cases += exhaustive_orders(rng, 4, "orders", 60)
        cases += exhaustive_orders(rng, 5, "orders", 40)     # 4800
        cases += [many_variants(rng) for _ in range(2500)]
        cases += [random_history(rng, 6, 40) for _ in range(6000)]
        for _ in range(150):
            cases += ambiguous(rng)
        cases += [query_matters(rng) for _ in range(1200)]
        cases += [with_prime(rng) for _ in range(1200)]
        cases += [specificity(rng) for _ in range(1200)]
        cases += [specificity(rng, None, True) for _ in range(200)]
        for _ in range(60):
            cases += empty_values(rng)
        cases += [conditional(rng) for _ in range(800)]
        cases += [wire(rng) for _ in range(1500)]
        cases += [malformed(rng) for _ in range(12)]
        cases += [interleaved(rng) for _ in range(600)]
        cases += [picky(rng) for _ in range(1000)]
        cases += [picky(rng, True) for _ in range(300)]
        cases += [overlap(rng) for _ in range(1000)]
        cases += [overlap(rng, True) for _ in range(300)]
        cases += [internal_routes(rng, "spec") for _ in range(800)]
        cases += [internal_routes(rng, "run") for _ in range(1000)]
        cases += [internal_routes(rng, "wire") for _ in range(400)]
        cases += [internal_interleaved(rng) for _ in range(300)]
    return cases


def directed(rng, mismatches):
    cases = exhaustive_orders(rng, 4, "orders", 12)
    for _ in range(40):
        cases += ambiguous(rng)
    cases += [many_variants(rng) for _ in range(500)]
    cases += [random_history(rng, 6, 30) for _ in range(500)]
    cases += [query_matters(rng) for _ in range(200)]
    cases += [with_prime(rng) for _ in range(150)]
    cases += [specificity(rng) for _ in range(150)]
    cases += [specificity(rng, None, True) for _ in range(30)]
    for _ in range(10):
        cases += empty_values(rng)
    cases += [conditional(rng) for _ in range(100)]
    cases += [wire(rng) for _ in range(200)]
    cases += [picky(rng) for _ in range(150)]
    cases += [picky(rng, True) for _ in range(40)]
    cases += [overlap(rng) for _ in range(100)]
    cases += [overlap(rng, True) for _ in range(30)]
    cases += [internal_routes(rng, "spec") for _ in range(100)]
    cases += [internal_routes(rng, "run") for _ in range(100)]
    cases += [internal_routes(rng, "wire") for _ in range(40)]
    cases += [internal_interleaved(rng) for _ in range(40)]
    return cases


# ---- oracle ------------------------------------------------------------------------------
UNREADABLE = ("L", [("N", 94)])      # a dump whose Debug text the harness could not read: not an outcome of the code


def _hc(x):
    return [(a[1][0][1], a[1][1][1]) for a in x[1]]


def _dump_ok(i, s):
    """implementation dump (L pq_slot p_slot) vs. the spec's list of seen header lists of the page"""
    if i == UNREADABLE:
        return True
    try:
        seen = [_hc(h) for h in s[1]]
        slots = i[1]
        if len(slots) != 2 or slots[0][1] != []:
            return False       # the pages of cases with a spec component are stored under the path key only
        if slots[1][1] == []:
            return seen == []
        vec = [_hc(h) for h in slots[1][1][0][1]]
    except Exception:
        return False
    # a finite map: no two stored variants with equal header lists, and exactly the lists seen.  (That the vector is
    # *ascending* for Ord on [Header] is an internal matter: the model's dump shows it and the correspondence compares it.)
    return len(set(map(tuple, vec))) == len(vec) and sorted(vec) == sorted(seen) and len(set(map(tuple, seen))) == len(seen)


def _canon_vary(x):
    """a reply with its vary values reduced to what they advertise: a rule header that repeats accept-encoding or range (a
    rule on one of the two) says nothing the fixed part does not say - listing it again or not is not fixed by the property"""
    try:
        if x[0] != "L" or len(x[1]) < 2 or x[1][1][0] != "L":
            return x
        hs = []
        for h in x[1][1][1]:
            n, v = h[1][0][1], h[1][1][1]
            if n == b"vary":
                el = v.split(b", ")
                v = b", ".join(el[:2] + [e for e in el[2:] if e.lower() not in (b"accept-encoding", b"range")])
            hs.append(("L", [("B", n), ("B", v)]))
        return ("L", [x[1][0], ("L", hs)] + list(x[1][2:]))
    except Exception:
        return x


def spec_ok(c, impl, spec):
    try:
        a, b = xparse(impl), xparse(spec)
    except Exception:
        return False
    if a[0] != "L" or b[0] != "L" or len(a[1]) != len(b[1]):
        return False
    ops = c.x[1][1][1]
    for o, x, y in zip(ops, a[1], b[1]):
        if o[1][0][1] == 4:
            if not _dump_ok(x, y):
                return False
        elif x != y and _canon_vary(x) != _canon_vary(y):
            return False
    return True


def compare(c, i, m):
    """equality, except that a dump the harness could not read is not compared (counted in the evidence)"""
    if i == m:
        return True
    if "(L (N 94))" not in i:
        return False
    try:
        a, b = xparse(i), xparse(m)
        if a[0] != "L" or b[0] != "L" or len(a[1]) != len(b[1]):
            return False
        return all(x == y or x == UNREADABLE for x, y in zip(a[1], b[1]))
    except Exception:
        return False


def _xf(i, v):
    if i == 0:
        return v.lower()
    if i == 1:
        return b"none" if not v else (b"lo" if b"a" <= v[:1].lower() <= b"m" else b"hi")
    if i == 2:
        return b"%d" % (len(v) % 3)
    return b"k"


_TOKEN = set(b"!#$%&'*+-.^_`|~0123456789abcdefghijklmnopqrstuvwxyz")


def _lookup_name(name):
    """HeaderMap::get(&str): the name lower-cased; a name that is no token finds nothing"""
    n = name.lower()
    return n if n and all(ch in _TOKEN for ch in n) else None


def _text(v):
    return v is not None and all(32 <= b < 127 or b == 9 for b in v)


def _first_headers(req):
    hdrs = {}
    for h in req[1][4][1]:
        hdrs.setdefault(h[1][0][1], h[1][1][1])
    return hdrs


class _Cfg:
    def __init__(self, c):
        kv_ = {k[1][0][1]: k[1][1] for k in c.x[1][0][1]}
        flag = lambda k, d: (kv_[k][1] == 1) if k in kv_ else d
        self.cache, self.default_ext, self.ims = flag(b"cache", True), flag(b"default_ext", False), not flag(b"disable_ims", False)
        self.pages = {}
        for h in kv_.get(b"handlers", ("L", []))[1]:
            f = h[1]      # a later handler for the same path replaces the earlier one
            self.pages[f[0][1]] = {"kind": f[1][1], "prefix": f[3][1], "spref": f[5][1],
                                   "tuple": [(t[1][0][1], t[1][1][1], t[1][2][1]) for t in f[9][1]]}
        self.routes = []
        for r in kv_.get(b"ovroutes", ("L", []))[1]:
            to_path, to_q = _split(r[1][1][1])
            if to_path.startswith(b"/./"):
                self.routes.append((r[1][0][1], to_path, to_q))
        self.vary = []
        for r in kv_.get(b"vary", ("L", []))[1]:
            pat = r[1][0][1]
            self.vary = [e for e in self.vary if e[0] != pat] + [(pat, [(t[1][0][1], t[1][1][1], t[1][2][1]) for t in r[1][1][1]])]

    def rules(self, path):
        """extensions::RuleSet::get: the exact path, else the longest pattern "<prefix>*" whose prefix starts the path"""
        for pat, rs in self.vary:
            if pat == path:
                return rs
        best = None
        for pat, rs in self.vary:
            if pat.endswith(b"*") and path.startswith(pat[:-1]) and (best is None or len(pat) > len(best[0])):
                best = (pat, rs)
        return best[1] if best else []

    def prime(self, path):
        if self.default_ext and path.endswith(b"."):
            return path + b"html"
        if self.default_ext and path.endswith(b"/"):
            return path + b"index.html"
        return path

    def lookup(self, path, q, hdrs):
        """(path, query) of the URI the page is handled, looked up and cached under: the internal URI a Prime extension
        answered with - the route table of cfg ovroutes (on the rewritten path), else with the default extensions the CORS
        denial "/./cors_fail" for an `origin` that is not the request's own - or the request's (rewritten) URI"""
        for (frm, to_path, to_q) in self.routes:
            if frm == path:
                return to_path, to_q
        if self.default_ext and b"origin" in hdrs:
            o = hdrs[b"origin"]
            if not (_text(o) and o == b"http://" + hdrs.get(b"host", b"localhost")):
                return b"/./cors_fail", None
        return path, q

    def own(self, path, hdrs):
        out = []
        for (n, xf, d) in self.rules(path):
            ln = _lookup_name(n)
            v = hdrs.get(ln) if ln is not None else None
            out.append(_xf(xf, v) if _text(v) else d)
        return tuple(out)

    def vary_text(self, path):
        return b"accept-encoding, range" + b"".join(b", " + n for (n, _, _) in self.rules(path))

    def vary_wrong(self, path, lines):
        """The property fixes what the vary header lists, not its text: exactly one vary line; a comma-separated list that
        starts with accept-encoding, range; every rule header of the page is an element of it (a rule on accept-encoding or
        range itself is there already: listing it again, as the code does, or not is the same advertisement); nothing else
        is.  (The text itself - order, repetition - is compared with the model.)  None = fine, else what is wrong."""
        want = self.vary_text(path)
        if lines == [want]:
            return None
        if len(lines) != 1:
            return "%d vary lines" % len(lines)
        names = [n for (n, _, _) in self.rules(path)]
        if any(b"," in n for n in names):
            return "vary %r, expected %r" % (lines[0], want)      # (a rule name with a comma: only the text can be compared)
        elems = [e.strip(b" \t") for e in lines[0].split(b",")]
        if [e.lower() for e in elems[:2]] != [b"accept-encoding", b"range"]:
            return "vary %r does not start with accept-encoding, range" % lines[0]
        low = [e.lower() for e in elems]
        for n in names:
            if n.lower() not in low:
                return "rule header %r is not an element of vary %r" % (n, lines[0])
        for e in low[2:]:
            if e not in [n.lower() for n in names]:
                return "vary %r lists %r, which is no rule header of the page" % (lines[0], e)
        return None

    def refused(self, path, hdrs):
        """handler kind 6 (harness/src/c05.rs): no server caching when the first component the handler renders is empty or
        starts with 'n', 'z' or '0'"""
        pg = self.pages[path]
        if pg["kind"] != 6 or not pg["tuple"]:
            return False
        n, xf, d = pg["tuple"][0]
        v = hdrs.get(n)
        first = _xf(xf, v) if _text(v) else d
        return first == b"" or first[:1] in (b"n", b"z", b"0")

    def rendering(self, path, query, hdrs):
        pg = self.pages[path]
        want = pg["prefix"]
        if pg["kind"] == 5 and query:
            want += b"?" + query
        if pg["kind"] in (3, 5, 6):
            for (n, xf, d) in pg["tuple"]:
                v = hdrs.get(n)
                want += b"|" + (_xf(xf, v) if _text(v) else d)
        return want


_RANGE = re.compile(rb"^bytes=(\+?[0-9]+)-(\+?[0-9]+)$")


def _sanitize(path, hdrs):
    """(ok, range) as utils::sanitize_request sees the request (paths of the generators have no percent escapes)"""
    if b"./" in path or not path.startswith(b"/") or path.startswith(b"//"):
        return False, None
    rg = hdrs.get(b"range")
    m = _RANGE.match(rg) if _text(rg) else None
    if m:
        a, b = int(m.group(1)), int(m.group(2))
        if a > b:
            return False, None
        return True, (a, b + 1)
    return True, None


def _redirect_target(path):
    """extensions::uri_redirect_target with the default host options"""
    if path.endswith(b"."):
        return path + b"html"
    if path.endswith(b"/"):
        return path + b"index.html"
    return path


def _split(target):
    path, _, q = target.partition(b"?")
    return path, (q or None)


def _ims_fresh(hdrs):
    """True / False for the two dates the generators use (start + 100 s, start - 100 s), None otherwise"""
    v = hdrs.get(b"if-modified-since")
    if v is None:
        return False
    if v == b"@T+100":
        return True
    if v == b"@T-100":
        return False
    return None


def _history_oracle(c, out, wire_):
    """An independent reading of the property on the implementation's output alone, for sequential histories: a
    store  cache key -> set of transformed tuples  is kept; a request for a page is answered from the store without a
    handler invocation exactly when its own tuple is there (or with 304 when its date is fresh for the entry), and
    with exactly one invocation otherwise; every 200 body is the rendering of the request's *own* transformed tuple
    (and query); every non-empty response carries  vary: accept-encoding, range, <rule headers>."""
    cf = _Cfg(c)
    ops = c.x[1][1][1]
    store = {}
    for n, (o, x) in enumerate(zip(ops, out[1])):
        kind = o[1][0][1]
        if kind in (5, 6):
            return None                     # park/release: not a sequential history
        if kind == 1:
            # clear_page(host, uri): the URI as given and (kvarn 8ff8142) what the default redirect makes of it
            # ("<p>." -> "<p>.html", "<p>/" -> "<p>/index.html"), whether or not the redirect extension is mounted
            path, q = _split(o[1][1][1])
            for p_ in (path, _redirect_target(path)):
                store.pop(("pq", p_, q), None)
                store.pop(("p", p_), None)
        elif kind == 2:
            store.clear()
        elif kind == 4 and x != UNREADABLE and cf.cache and x[0] == "L" and len(x[1]) == 2:
            # the stored variants of a page are exactly the tuples computed (and admitted) since the last clear
            path, q = _split(o[1][1][1])
            if path in cf.pages:
                for slot, key in ((x[1][0], ("pq", path, q)), (x[1][1], ("p", path))):
                    dumped = {tuple(v for (_, v) in _hc(h)) for h in slot[1][0][1]} if slot[1] else None
                    if dumped != store.get(key):
                        return ("dump #%d of %s: the stored variants %r are not the tuples computed and admitted since the last clear %r"
                                % (n, o[1][1][1].decode("latin1"), sorted(dumped) if dumped else dumped,
                                   sorted(store[key]) if key in store else None))
        if kind != 0 or x[0] != "L" or len(x[1]) < 5:
            continue
        method, target = o[1][2][1], o[1][3][1]
        hdrs = _first_headers(o)
        path0, q = _split(target)
        # `path`, `cq`: the URI the page is cached under (an internal route's: its rules, its handler, its cache keys);
        # `q`: the query of the request itself (what a handler that echoes the query sees)
        path, cq = cf.lookup(cf.prime(path0), q, hdrs)
        status, reported, body = x[1][0][1], x[1][1][1], x[1][2][1]
        log = x[1][-1][1]
        where = "request #%d %s %s %r: " % (n, method.decode(), target.decode("latin1"), sorted(hdrs.items()))
        # -- the vary header
        lines = [h[1][1][1] for h in reported if h[1][0][1] == b"vary"]
        want_vary = cf.vary_text(path)
        if body != b"" or lines:
            wrong = cf.vary_wrong(path, lines)
            if wrong:
                return where + "%sresponse (status %d): %s (expected %r)" % ("non-empty " if body != b"" else "", status, wrong, want_vary)
        ok, rg = _sanitize(path0, hdrs)
        if path not in cf.pages or not ok:
            if len(log) != 0 and not ok:
                return where + "a request that fails sanitize reached the handler"
            continue
        # -- who computed it
        t = cf.own(path, hdrs)
        gh = method in (b"GET", b"HEAD")
        expect_calls = 1
        # a response whose handler declares no server caching is never stored: not as a new item, not as a new variant of
        # an item (kvarn 8fe98d4) - every request for it runs the handler
        refused = cf.refused(path, hdrs)
        if gh and cf.cache:
            kpq, kp = ("pq", path, cq), ("p", path)
            key = kpq if kpq in store else kp if kp in store else None
            if key is not None:
                fresh = _ims_fresh(hdrs) if cf.ims else False
                if fresh is None:
                    return None
                # a date that is fresh for the entry: "not modified" is the answer exactly when the request's OWN tuple was
                # computed since the last clear (kvarn 832d735: only a stored variant can be vouched for) - computed by
                # nobody, nothing stored, and whatever the range header says (kvarn 9ae9b1a: a 304 is not range-sliced).
                # A 304 for a tuple that was never computed is a variant served for a different transformed value.
                if status == 304 and not (fresh and t in store[key]):
                    return where + ("304 Not Modified although %s" % (
                        "the date is not fresh" if not fresh else
                        "no response for the transformed tuple %r was computed since the last clear" % (t,)))
                if fresh and t in store[key]:
                    if status != 304:
                        return where + "status %d, expected 304 (fresh date, the request's own variant is stored)" % status
                    if len(log) != 0:
                        return where + "the handler was invoked for a request that was answered 304"
                    if body != b"":
                        return where + "a 304 with a body"
                    continue
                if t in store[key]:
                    expect_calls = 0
                elif not refused:
                    store[key].add(t)
            elif not refused:
                store[kpq if cf.pages[path]["spref"] == 1 else kp] = {t}
        if len(log) != expect_calls:
            if refused:
                return where + "answered without a handler invocation although the handler declares no server caching for this tuple %r" % (t,)
            if expect_calls == 0:
                return where + "the handler was invoked although a response for the transformed tuple %r is stored" % (t,)
            return where + ("no handler invocation although no response for the transformed tuple %r (query %r) was computed since the last clear"
                            % (t, cq))
        # -- what it says
        want = cf.rendering(path, q, hdrs)
        if wire_:
            if status == 416 and rg is not None and rg[0] >= len(want):
                continue
            if rg is not None and rg[0] < len(want):
                if status != 206:
                    return where + "status %d for a satisfiable range" % status
                want = want[rg[0]:min(rg[1], len(want))]
            elif status != 200:
                return where + "status %d, expected 200" % status
            if method == b"HEAD":
                want = b""
        elif status != 200:
            return where + "status %d, expected 200" % status
        if body != want:
            return where + "body %r is not the rendering of the request's own transformed tuple %r" % (body, want)
    return None


def extra_oracle(c, impl):
    """On the implementation's output alone (also for the histories without a spec component): no dumped vector holds two
    variants with equal header lists; the history oracle above; for park/release histories: every 200 body is the handler
    prefix followed by the rendering of the request's *own* transformed tuple (Python re-implementation of the menu)."""
    try:
        out = xparse(impl)
        if out == ("L", [("N", 2)]):
            return "handle_cache panicked" if c.meta.get("kind") != "malformed-rule-name" else None
        if out[0] != "L" or (out[1] and out[1][0][0] == "N"):
            return None
        cf = _Cfg(c)
        ops = c.x[1][1][1]
        pending = None
        for o, x in zip(ops, out[1]):
            kind = o[1][0][1]
            if kind == 4 and x != UNREADABLE:
                for slot in x[1]:
                    if slot[1]:
                        vec = [_hc(h) for h in slot[1][0][1]]
                        if len(set(map(tuple, vec))) != len(vec):
                            return "two stored variants have equal transformed header lists: %r" % (vec,)
            req = None
            if kind in (0, 5):
                req = o
                if kind == 5 and x == ("L", []):
                    pending, req = o, None
            elif kind == 6 and pending is not None:
                req, pending = pending, None
            if req is not None and c.comp == "vary.run" and x[0] == "L" and len(x[1]) == 6 and x[1][0][1] == 200:
                path, q = _split(req[1][3][1])
                path, _ = cf.lookup(cf.prime(path), q, _first_headers(req))
                if path in cf.pages:
                    want = cf.rendering(path, q, _first_headers(req))
                    if x[1][2][1] != want:
                        return "body %r is not the rendering of the request's own transformed tuple %r" % (x[1][2][1], want)
        return _history_oracle(c, out, c.comp == "vary.wire")
    except Exception as e:  # malformed output is a correspondence matter, not an oracle verdict
        return None


def _max_variants(m):
    best = 0
    try:
        for x in xparse(m)[1]:
            if x[0] == "L" and len(x[1]) == 2 and all(s[0] == "L" for s in x[1]):
                for s in x[1]:
                    if s[1] and s[1][0][0] == "L":
                        best = max(best, len(s[1][0][1]))
    except Exception:
        pass
    return best


def signature(c, m):
    if c.comp == "vary.wire":
        st = sorted({x[1][0][1] for x in xparse(m)[1] if x[0] == "L" and len(x[1]) == 5})
        return "wire:" + ",".join(map(str, st)) if len(st) >= 2 else None
    n = _max_variants(m)
    return "variants=%d" % n if n >= 3 else None


def extra_coverage(cases, impl, model, spec):
    hist, wire_status, unreadable, dumps_, qm_vm = {}, {}, 0, 0, 0
    wire_nonempty = 0
    for c in cases:
        if c.id in model and c.comp == "vary.run":
            n = _max_variants(model[c.id])
            hist[n] = hist.get(n, 0) + 1
        if c.id in impl:
            i = impl[c.id]
            dumps_ += sum(1 for o in c.x[1][1][1] if o[1][0][1] == 4)
            unreadable += i.count("(L (N 94))")
            if c.comp == "vary.wire":
                try:
                    for x in xparse(i)[1]:
                        if x[0] == "L" and len(x[1]) == 5:
                            wire_status[x[1][0][1]] = wire_status.get(x[1][0][1], 0) + 1
                            wire_nonempty += x[1][2][1] != b""
                except Exception:
                    pass
    if unreadable:
        print("note: %d of %d dumps of the variant vector could not be read (has the Debug output of VariedResponse changed?): the order of "
              "the stored vector was not compared in those; every other check ran" % (unreadable, dumps_))
    return {"histories_by_max_variants_on_a_page": {str(k): v for k, v in sorted(hist.items())},
            "histories_with_4_or_more_variants": sum(v for k, v in hist.items() if k >= 4),
            "dumps": dumps_, "dumps_unreadable": unreadable,
            "wire_responses_by_status": {str(k): v for k, v in sorted(wire_status.items())},
            "wire_responses_with_a_body": wire_nonempty}


def describe(c):
    ops = c.x[1][1][1]
    return {"component": c.comp, "kind": c.meta.get("kind"), "config": kv.pretty(c.x[1][0], 400), "ops": [kv.pretty(o, 120) for o in ops][:16]}


# the statements are pinned in driver/props/pins/C05.json (written by tools/mkpins.py C05 after a REVIEWED change of a statement)
_PINS = json.load(open(os.path.join(os.path.dirname(os.path.abspath(__file__)), "pins", "C05.json")))
THEOREMS = [(n, _PINS[n]) for n in (
    "vary_served_for_equal_tuple", "variant_of_the_cached_path", "route_keeps_method_and_headers", "variants_sorted",
    "items_built_with_rules_of_their_path",
    "lookup_refines_map", "insert_refines_map", "lookup_never_wrong_variant", "vary_refines_map", "computed_once_per_tuple",
    "default_applied", "vary_header_eq", "vary_lists_every_rule_header", "stale_position_safe", "vector_refines_assoc_list",
    "vary_cache_transparent", "wire_vary_advertised", "send_keeps_vary", "wire_not_modified_as_is",
    "not_modified_only_for_stored_variant", "not_modified_same_entry_sound", "entry_changes_are_dated",
    "honest_not_modified_sound", "served_copy_is_held", "wire_416_without_vary_v0_refuted",
    "wire_416_internal_route_v0_refuted", "not_modified_only_for_stored_variant_v0_refuted", "stale_position_v0_refuted",
    "vary_rules_of_most_specific", "vary_exact_rule_wins_c05", "vary_longest_pattern_wins_c05", "vary_uncovered_path_has_no_rules",
    "length_only_shadows_exact_refuted", "empty_value_is_transformed", "empty_as_default_refuted")]
