"""C18 — Buffer and stream helpers return exactly the bytes produced."""
import os
import random

from kv import Case, xn, xb, xl, xlist, xopt, xbool, xparse

ID = "C18"
MODULE = "C18"
IMPORTS = "Bytes RustInt Buffers BuffersProofs"
PROFILES = ("dev", "nochk")
EXHAUSTIVE = False
KERNEL_SAMPLE = 40

# KV_C18_LEGACY=1 compares the real read_to_end_or_max with the model of the code *before* the repair
# (first call reserve(0, buffer)); used to replay the defect on the unrepaired tree.
LEGACY = os.environ.get("KV_C18_LEGACY", "") == "1"
READ = "buf.read.legacy" if LEGACY else "buf.read"

U64 = 2**64 - 1
_pool_rng = random.Random(18)
POOL = bytes(_pool_rng.randrange(256) for _ in range(1 << 17))


def data(off, n):
    off %= 1 << 16
    return POOL[off:off + n]


JUNKS = [b"\xaa", b"", b"\x00\xff\x55", b"JUNKJUNK!", bytes(range(200, 232))]


def junk(rng):
    return xb(rng.choice(JUNKS))


# ---------------------------------------------------------------------------------------------
# capacity simulation (only guides the generators towards the thresholds; never compared)
# ---------------------------------------------------------------------------------------------
def grow_vec(cap, need):
    return max(8, 2 * cap, need)


def wb_cap_after(cap, length, n):
    if length + n > cap:
        return grow_vec(cap, cap + n * 3 // 2 + 128)
    return cap


def rt_reserve(read, cap):
    if cap - read < 32:
        lower = 1024
        hi = max(cap * 2 // 3, lower)
        add = lower if cap < lower else (hi if cap > hi else cap)
        return grow_vec(cap, cap + add)
    return cap


# ---------------------------------------------------------------------------------------------
# WriteableBytes
# ---------------------------------------------------------------------------------------------
def w_case(ctor, sizes, rng, kind, profile="dev"):
    if ctor[0] == "new":
        c = xl(xn(0))
    elif ctor[0] == "cap":
        c = xl(xn(1), xn(ctor[1]))
    else:
        c = xl(xn(2), xb(ctor[1]), xn(ctor[2]))
    off = rng.randrange(1 << 16)
    ws = []
    for n in sizes:
        ws.append(xb(data(off, n)))
        off += n + 1
    return Case("buf.writeable", xl(c, xlist(ws), junk(rng)), "buf.writeable.spec", {"kind": kind}, profile)


def w_ctor_state(ctor):
    if ctor[0] == "new":
        return 0, 0
    if ctor[0] == "cap":
        return ctor[1], 0
    return len(ctor[1]) + ctor[2], len(ctor[1])


def w_threshold_sizes(rng, ctor, nwrites):
    """sizes chosen relative to the simulated spare room: 0, 1, room-1, room, room+1, 4 KiB, around 3/2*n+128"""
    cap, length = w_ctor_state(ctor)
    sizes = []
    for _ in range(nwrites):
        room = cap - length
        pick = rng.randrange(10)
        if pick == 0:
            n = 0
        elif pick == 1:
            n = 1
        elif pick == 2:
            n = max(0, room - 1)
        elif pick == 3:
            n = room
        elif pick == 4:
            n = room + 1
        elif pick == 5:
            n = 4096
        elif pick == 6:
            n = rng.choice([127, 128, 129, 191, 192, 193, 255, 256, 257])
        elif pick == 7:
            n = room + rng.choice([2, 127, 128, 129])
        else:
            n = rng.randrange(0, 40)
        n = min(n, 6000)
        sizes.append(n)
        cap = wb_cap_after(cap, length, n)
        length += n
    return sizes


def gen_writeable(rng, tier):
    cases = []
    ctors = [("new",), ("cap", 0), ("cap", 1), ("cap", 7), ("cap", 8), ("cap", 9), ("cap", 127), ("cap", 128), ("cap", 129),
             ("cap", 512), ("cap", 4096), ("from", b"", 0), ("from", b"", 5), ("from", b"init", 0), ("from", b"init", 1),
             ("from", b"0123456789", 3), ("from", data(5, 200), 0), ("from", data(9, 200), 4096)]
    # the unit test of kvarn_utils and degenerate sessions
    for ct in ctors:
        cases.append(w_case(ct, [], rng, "w-nowrite"))
        cases.append(w_case(ct, [0], rng, "w-empty"))
        cases.append(w_case(ct, [0, 0, 1, 0], rng, "w-empty"))
        cases.append(w_case(ct, [3, 5, 2], rng, "w-small", "nochk"))
    # a single write of every size around the capacity, for small capacities (bounded exhaustive)
    for cap in list(range(0, 12)) + [126, 127, 128, 129, 130]:
        for n in list(range(0, cap + 3)) if cap < 12 else [cap - 1, cap, cap + 1]:
            cases.append(w_case(("cap", cap), [n], rng, "w-single"))
            cases.append(w_case(("cap", cap), [n, 1], rng, "w-single"))
            cases.append(w_case(("from", data(cap, cap // 2), cap - cap // 2), [n, 2], rng, "w-single"))
    # two writes: the second one lands exactly on / next to the boundary left by the first
    for cap in (0, 1, 8, 20, 200):
        for a in (0, 1, cap // 2, cap - 1 if cap else 0, cap, cap + 1):
            cap2 = wb_cap_after(cap, 0, a)
            room = cap2 - a
            for b_ in (0, 1, max(0, room - 1), room, room + 1, room + 200):
                cases.append(w_case(("cap", cap), [a, b_, 3], rng, "w-double"))
    nseq = 700 if tier == "quick" else 12000
    for i in range(nseq):
        ct = rng.choice(ctors) if rng.random() < 0.7 else ("cap", rng.randrange(0, 5000))
        sizes = w_threshold_sizes(rng, ct, rng.randrange(1, 9 if tier == "quick" else 16))
        cases.append(w_case(ct, sizes, rng, "w-threshold", "nochk" if i % 5 == 0 else "dev"))
    return cases


# ---------------------------------------------------------------------------------------------
# BytesCow::replace
# ---------------------------------------------------------------------------------------------
ALPHA = b"abcdefghijklmnopqrstuvwxyz0123456789ABCDEFGHIJKLMNOPQRSTUVWXYZ_-"
REP = b"#%&*+=?@^~" * 10


def r_case(body, spare, s, e, rep, kind_n, rng, kind, profile):
    x = xl(xbool(profile == "dev"), xn(kind_n), xb(body), xn(spare), xn(s), xn(e), xb(rep), junk(rng))
    return Case("buf.replace", x, "buf.replace.spec", {"kind": kind}, profile)


def gen_replace(rng, tier):
    cases = []
    k = 0
    maxlen = 8
    for n in range(0, maxlen + 1):
        body = ALPHA[:n]
        for s in range(0, n + 2):
            for e in range(0, n + 3):
                width = max(0, e - s)
                if tier == "quick":
                    rls = sorted({0, 1, 2, max(0, width - 1), width, width + 1, n + 1})
                else:
                    rls = range(0, n + 3)
                for rl in rls:
                    need = max(0, rl - width)
                    if tier == "quick":
                        k += 1
                        combos = [(k % 4, [0, 1, need, max(0, need - 1), need + 1, 3][k % 6], PROFILES[k % 2])]
                    else:
                        combos = [(kd, sp, PROFILES[(kd + sp + rl) % 2]) for kd in range(4)
                                  for sp in sorted({0, max(0, need - 1), need, need + 1})]
                    for kd, sp, prof in combos:
                        cases.append(r_case(body, sp, s, e, REP[:rl], kd, rng, "r-exhaustive", prof))
    # usize boundaries for start / end (wrap-around candidates)
    big = [2**31, 2**32 - 1, 2**32, 2**63 - 1, 2**63, U64 - 16, U64 - 8, U64 - 3, U64 - 2, U64 - 1, U64]
    for n in (0, 1, 3, 8):
        body = ALPHA[:n]
        small = [0, 1, n, n + 1]
        for s in small + big:
            for e in small + big:
                if s in small and e in small:
                    continue
                for rl in (0, 1, 3, 9):
                    for prof in PROFILES:
                        cases.append(r_case(body, rl, s, e, REP[:rl], (s + e + rl) % 4, rng, "r-usize", prof))
    nrand = 2500 if tier == "quick" else 60000
    for _ in range(nrand):
        n = rng.randrange(0, 65)
        body = bytes(rng.choice(ALPHA) for _ in range(n))
        r = rng.random()
        if r < 0.75:
            s = rng.randrange(0, n + 1)
            e = rng.randrange(s, n + 1)
        elif r < 0.85:
            e = rng.randrange(0, n + 1)
            s = rng.randrange(e, n + 3)
        else:
            s = rng.randrange(0, n + 4)
            e = rng.randrange(0, n + 4)
        rl = rng.choice([0, 1, max(0, e - s), max(0, e - s) + 1, rng.randrange(0, 90)])
        sp = rng.choice([0, 0, 1, max(0, rl - max(0, e - s)), rng.randrange(0, 100)])
        cases.append(r_case(body, sp, s, e, REP[:rl], rng.randrange(4), rng, "r-random", rng.choice(PROFILES)))
    return cases


# ---------------------------------------------------------------------------------------------
# read_to_end_or_max
# ---------------------------------------------------------------------------------------------
def adaptive_chunks(rng, initlen, spare, total, style):
    """chunk sizes chosen against the simulated room offered by the (repaired) code"""
    cap = initlen + spare
    read = initlen
    cap = rt_reserve(read, cap)
    out = []
    remaining = total
    while remaining > 0:
        room = cap - read
        st = style if style != "mix" else rng.choice(["one", "fill", "fill-1", "fill+1", "thr", "rand", "rand", "small"])
        if st == "one":
            n = 1
        elif st == "fill":
            n = room
        elif st == "fill-1":
            n = room - 1
        elif st == "fill+1":
            n = room + 1
        elif st == "thr":
            n = room - 32 + rng.choice([-1, 0, 1])
        elif st == "small":
            n = rng.randrange(1, 40)
        else:
            n = rng.randrange(1, 5000)
        n = max(1, min(n, remaining))
        out.append(n)
        remaining -= n
        left = n
        while left > 0:
            got = min(left, cap - read)
            read += got
            left -= got
            cap = rt_reserve(read, cap)
    return out


def rd_case(init, spare, mx, sizes, rng, kind, fails=(), empties=False, profile="dev"):
    off = rng.randrange(1 << 16)
    evs = []
    fails = dict(fails)
    for i, n in enumerate(sizes):
        if i in fails:
            evs.append(xn(fails[i]))
        if empties and i % 3 == 1:
            evs.append(xb(b""))
        evs.append(xb(data(off, n)))
        off += n
    if len(sizes) in fails:
        evs.append(xn(fails[len(sizes)]))
    x = xl(xb(init), xn(spare), xn(mx), xlist(evs), junk(rng))
    return Case(READ, x, "buf.read.spec", {"kind": kind}, profile)


def maxes(initlen, total):
    t = initlen + total
    return sorted({0, 1, initlen, initlen + 1, max(0, t - 1), t, t + 1, initlen + total // 2, 2**32, U64})


def gen_read(rng, tier):
    cases = []
    # corpus: a full initial buffer (len == capacity >= 32) used to make the helper return without reading
    for n, sp in ((40, 0), (32, 0), (33, 0), (31, 0), (4096, 0), (40, 1), (100, 31), (100, 32)):
        cases.append(rd_case(data(1, n), sp, 1000 + n, [10], rng, "rd-corpus-full"))
        cases.append(rd_case(data(1, n), sp, U64, [1, 1, 5000], rng, "rd-corpus-full"))
    # initial buffers x spare capacities around the 32-byte threshold x maxima
    for initlen in (0, 1, 31, 32, 33, 64, 1000):
        for sp in (0, 1, 2, 30, 31, 32, 33, 34, 512, 4096):
            for sizes in ([], [1], [5, 5], [sp] if sp else [2], [sp + 1], [max(1, sp - 1), 3], [2000], [700, 700, 700]):
                total = sum(sizes)
                ms = maxes(initlen, total) if tier != "quick" else rng.sample(maxes(initlen, total), 3) + [U64]
                for mx in ms:
                    cases.append(rd_case(data(3, initlen), sp, mx, sizes, rng, "rd-threshold",
                                         profile="nochk" if (initlen + sp + mx) % 7 == 0 else "dev"))
    # single-byte reads
    for total in ([0, 1, 2, 31, 32, 33, 100, 1023, 1024, 1025, 2048] if tier == "quick" else
                  [0, 1, 2, 31, 32, 33, 100, 1023, 1024, 1025, 2048, 4095, 4096, 4097, 8192]):
        for initlen, sp in ((0, 4096), (0, 0), (7, 40), (40, 0)):
            for mx in (U64, total // 2, initlen + total):
                cases.append(rd_case(data(4, initlen), sp, mx, [1] * total, rng, "rd-single-byte"))
    # reads that fill the spare capacity exactly / around it / around the 32-byte threshold
    styles = ["fill", "fill-1", "fill+1", "thr", "mix", "small", "rand"]
    nad = 300 if tier == "quick" else 4000
    for i in range(nad):
        st = styles[i % len(styles)]
        initlen = rng.choice([0, 0, 0, 5, 40, 1000])
        sp = rng.choice([0, 1, 31, 32, 33, 64, 512, 4096, 4096])
        total = rng.choice([10, 100, 1500, 5000, 9000]) if tier == "quick" or rng.random() < 0.8 else rng.choice([20000, 65536])
        if st in ("small",) and total > 6000:
            total = 6000
        sizes = adaptive_chunks(rng, initlen, sp, total, st)
        mx = rng.choice(maxes(initlen, total) + [U64, U64, initlen + rng.randrange(0, total + 1)])
        cases.append(rd_case(data(i, initlen), sp, mx, sizes, rng, "rd-" + st, empties=(i % 4 == 0),
                             profile="nochk" if i % 6 == 0 else "dev"))
    # streams up to 64 KiB
    for total in ((16384, 65536) if tier == "quick" else (16384, 32768, 65535, 65536)):
        for st in ("fill", "rand", "thr"):
            for initlen, sp in ((0, 4096), (0, 0), (100, 5)):
                sizes = adaptive_chunks(rng, initlen, sp, total, st)
                for mx in (U64, total // 2):
                    cases.append(rd_case(data(6, initlen), sp, mx, sizes, rng, "rd-64k"))
    # failing readers: the error position relative to the chunks and to the maximum
    nf = 150 if tier == "quick" else 2500
    for i in range(nf):
        initlen = rng.choice([0, 3, 40])
        sp = rng.choice([0, 1, 32, 100, 4096])
        total = rng.choice([0, 1, 50, 1500, 6000])
        sizes = adaptive_chunks(rng, initlen, sp, total, "mix") if total else []
        pos = rng.randrange(0, len(sizes) + 1)
        fails = {pos: rng.choice([1, 5, 104])}
        if rng.random() < 0.2 and len(sizes) > 1:
            fails[rng.randrange(0, len(sizes) + 1)] = 7
        mx = rng.choice([U64, U64, initlen + sum(sizes[:pos]), initlen + sum(sizes[:pos]) + 1, max(0, initlen + sum(sizes[:pos]) - 1)])
        cases.append(rd_case(data(i, initlen), sp, mx, sizes, rng, "rd-fail", fails=fails, empties=(i % 3 == 0)))
    return cases


def gen_file(rng, tier):
    sizes = [0, 1, 100, 4063, 4064, 4065, 4095, 4096, 4097, 8192, 65536]
    if tier != "quick":
        sizes += [4096 - 33, 4096 - 31, 12287, 12288, 12289, 100000, 262144]
    return [Case("buf.file", xl(xb(data(n, n) if n <= 65536 else (POOL * 3)[:n]), junk(rng)), "buf.file.spec", {"kind": "file"})
            for n in sizes]


def generate(rng, tier):
    return gen_read(rng, tier) + gen_writeable(rng, tier) + gen_replace(rng, tier) + gen_file(rng, tier)


# ---------------------------------------------------------------------------------------------
# oracle: the specification evaluated on the implementation's answer
# ---------------------------------------------------------------------------------------------
def read_spec_holds(impl_text, spec_text):
    """Model/Buffers.v [read_spec] on the implementation's answer.
    spec = (L (B init) (B bytes-before-first-failure) (L [failure]) (N max))"""
    try:
        i = xparse(impl_text)
        s = xparse(spec_text)
        init, pre, fail, mx = s[1][0][1], s[1][1][1], s[1][2][1], s[1][3][1]
        fail = fail[0][1] if fail else None
        tag = i[1][0][1]
        if tag == 0:
            buf, consumed = i[1][1][1], i[1][2][1]
            if not buf.startswith(init):
                return False
            taken = buf[len(init):]
            if not pre.startswith(taken) or consumed != len(taken):
                return False
            return (taken == pre and fail is None) or len(buf) >= mx
        if tag == 1:
            e, buf, consumed = i[1][1][1], i[1][2][1], i[1][3][1]
            return fail == e and buf == init + pre and consumed == len(pre)
        return False
    except (IndexError, TypeError, AssertionError, ValueError):
        return False


def spec_ok(c, i, s):
    if c.comp.startswith("buf.read"):
        return read_spec_holds(i, s)
    return i == s


def signature(c, m):
    comp = c.comp
    if comp.startswith("buf.read"):
        cls = {"(L (N 0)": "ok", "(L (N 1)": "ioerr"}.get(m[:8], "other")
    elif comp == "buf.replace":
        cls = "panic" if m.startswith("(L (N 2)") else "ok"
    else:
        cls = "ok" if m.startswith("(L (N 0)") else "other"
    return cls


def directed(rng, mismatches):
    """after a broken proof / correspondence: sweep every constant of the three helpers more densely"""
    cases = []
    r = random.Random(1818)
    for initlen in list(range(0, 70)) + [1000, 1023, 1024, 1025, 1536, 1537, 4096]:
        for sp in (0, 1, 2, 30, 31, 32, 33):
            for sizes in ([1], [sp + 1, 1], [40, 40], [1, 1, 1], [3000]):
                for mx in (U64, initlen + sum(sizes), initlen + 1):
                    cases.append(rd_case(data(2, initlen), sp, mx, sizes, r, "directed-read"))
    for cap in range(0, 40):
        for n in range(0, cap + 3):
            cases.append(w_case(("cap", cap), [n, 1, n], r, "directed-write"))
            cases.append(w_case(("from", data(0, cap), 0), [n, 1], r, "directed-write"))
    for n in range(0, 7):
        for s in range(0, n + 2):
            for e in range(0, n + 2):
                for rl in range(0, n + 3):
                    for kd in range(4):
                        for prof in PROFILES:
                            cases.append(r_case(ALPHA[:n], (s + e) % 3, s, e, REP[:rl], kd, r, "directed-replace", prof))
    cases += gen_file(r, "thorough")
    return cases


def describe(c):
    from kv import pretty
    return {"component": c.comp, "input": pretty(c.x, 60), "profile": c.profile, "kind": c.meta.get("kind")}


THEOREMS = [
    ("writeable_is_append",
     r"forall grow junk (c : wctor) (writes : list bytes), grow_ok grow -> wb_session grow junk c writes = Ok (wctor_init c ++ concat writes)"),
    ("writeable_from_any_buffer",
     r"forall grow junk (b : buf) (writes : list bytes), grow_ok grow -> wf b -> exists w w' b', wb_from b = Ok w /\ wb_writes grow junk w writes = Ok w' /\ wb_into_inner w' = Ok b' /\ wf b' /\ contents b' = contents b ++ concat writes"),
    ("replace_is_splice",
     r"forall grow junk (checked : bool) (b : buf) (s e : N) (rep : bytes), grow_ok grow -> wf b -> fits b rep -> s <= e -> e <= N.of_nat (b_len b) -> exists b', cow_replace grow junk checked b s e rep = Ok b' /\ wf b' /\ contents b' = splice (N.to_nat s) (N.to_nat e) rep (contents b)"),
    ("replace_panics_iff",
     r"forall grow junk (checked : bool) (b : buf) (s e : N) (rep : bytes), grow_ok grow -> wf b -> fits b rep -> (cow_replace grow junk checked b s e rep = Panic <-> N.of_nat (b_len b) < e)"),
    ("replace_complete",
     r"forall grow junk (checked : bool) (b : buf) (s e : N) (rep : bytes), grow_ok grow -> wf b -> fits b rep -> if e <=? N.of_nat (b_len b) then exists b', cow_replace grow junk checked b s e rep = Ok b' /\ wf b' /\ contents b' = splice (N.to_nat (N.min s e)) (N.to_nat e) rep (contents b) else cow_replace grow junk checked b s e rep = Panic"),
    ("read_all_or_prefix",
     r"forall grow junk (b : buf) (chunks : list bytes) (max : N), grow_ok grow -> wf b -> exists b' rest taken, read_to_end_or_max grow junk false b (data_stream chunks) max = RDone b' rest /\ contents b' = contents b ++ taken /\ concat chunks = taken ++ fst (pre_fail rest) /\ (taken = concat chunks \/ max <= N.of_nat (length (contents b')))"),
    ("read_with_failures",
     r"forall grow junk (b : buf) (cs : stream) (max : N), grow_ok grow -> wf b -> read_spec (contents b) cs max (read_to_end_or_max grow junk false b cs max)"),
    ("read_file_whole",
     r"forall grow junk (chunks : list bytes), grow_ok grow -> N.of_nat (length (concat chunks)) < u64_max -> read_file grow junk (data_stream chunks) = Ok (concat chunks)"),
    ("read_file_complete",
     r"forall grow junk (cs : stream), grow_ok grow -> N.of_nat (stream_len cs) < u64_max -> read_file grow junk cs = match snd (pre_fail cs) with None => Ok (fst (pre_fail cs)) | Some _ => Err 0 end"),
    ("no_junk",
     r"forall grow j1 j2, grow_ok grow -> (forall c writes, wb_session grow j1 c writes = wb_session grow j2 c writes) /\ (forall checked b1 b2 s e rep, wf b1 -> wf b2 -> fits b1 rep -> contents b1 = contents b2 -> match cow_replace grow j1 checked b1 s e rep, cow_replace grow j2 checked b2 s e rep with | Ok r1, Ok r2 => contents r1 = contents r2 | Panic, Panic => True | _, _ => False end) /\ (forall b1 b2 cs max, wf b1 -> wf b2 -> contents b1 = contents b2 -> capacity b1 = capacity b2 -> same_obs (read_to_end_or_max grow j1 false b1 cs max) (read_to_end_or_max grow j2 false b2 cs max)) /\ (forall cs, N.of_nat (stream_len cs) < u64_max -> read_file grow j1 cs = read_file grow j2 cs)"),
    ("legacy_read_ok_with_room",
     r"forall grow junk (b : buf) (cs : stream) (max : N), grow_ok grow -> wf b -> (b_len b < capacity b \/ capacity b < 32)%nat -> read_spec (contents b) cs max (read_to_end_or_max grow junk true b cs max)"),
    ("legacy_read_refuted",
     r"exists b cs max, wf b /\ ~ read_spec (contents b) cs max (read_to_end_or_max grow_vec (junk_of []) true b cs max)"),
]

RULE = ("direct calls of kvarn_utils::WriteableBytes (new / with_capacity / From<BytesMut>, write*, into_inner), "
        "kvarn_utils::BytesCow::replace (Ref and three kinds of Mut storage, overflow checks on and off), "
        "kvarn_async::read_to_end_or_max driven by a scripted AsyncRead on a current-thread tokio runtime, and kvarn::read::file on a temp "
        "file under .run/, each against the Coq model (correspondence, exact equality incl. bytes consumed from the reader) and against "
        "the Coq specification (oracle). Writes: every single-write size around every capacity 0..11 and 126..130, pairs landing on the "
        "boundary left by the first write, random sequences with sizes 0, 1, room-1, room, room+1, 4 KiB, around 128/192/256. "
        "replace: every (start, end, replacement length) on bodies of 0..8 bytes incl. reversed and out-of-bounds ranges "
        "(bounded-exhaustive; thorough: x 4 storage kinds x spare capacities), usize boundary values, random on bodies up to 64 bytes. "
        "Streams: initial length x spare capacity around the 32-byte threshold x maxima; single-byte reads; chunks generated against a "
        "simulation of the capacity so that reads fill the spare capacity exactly / +-1 / leave 31,32,33 bytes; streams of 16-64 KiB; "
        "empty chunks; failing readers. distinct_nontrivial counts distinct (component, input, outcome class) triples")
ASSUMPTIONS = [
    "allocation sizes fit: 2*len + replacement length <= 2^64-1 in replace (hypothesis `fits` of the replace theorems); "
    "n*3/2+128 and capacity*2/3 do not overflow usize (lengths are unbounded naturals in the model of WriteableBytes and read_to_end_or_max)",
    "the allocator only promises capacity >= requested (hypothesis grow_ok) and BytesMut::reserve keeps the visible len bytes; "
    "bytes beyond len are arbitrary (parameter junk); the correspondence instantiates grow with Vec's amortised growth max(8, 2*cap, need)",
    "an AsyncRead returns between 1 and room bytes per successful read while data remains and 0 bytes at the end of the stream "
    "(stream = list of Data/Fail events); Pending/wake-ups are not modelled (the helper only awaits)",
    "kvarn::read::file: the file is a stream (tokio::fs::File); the uring code path (feature uring, off in `full`) is not modelled",
]
TRUSTED = ["modelled: utils/src/lib.rs WriteableBytes (new, with_capacity, From<BytesMut>, write, into_inner) and BytesCow::replace; "
           "async/src/lib.rs read_to_end_or_max (+ inner reserve); src/read.rs read/file (non-uring); bytes::BytesMut::{reserve,set_len}, "
           "slice::{copy_within,copy_from_slice} by their documented contracts"]
LEVEL_TEXT = ("Machine-checked Coq theorems over a model of the three helpers in which a buffer is (allocation contents, visible length), "
              "growth goes through an arbitrary allocation policy and uninitialised memory is an arbitrary parameter: WriteableBytes = append "
              "for every constructor, capacity and write sequence; BytesCow::replace = splice for every in-bounds range, panic exactly when the "
              "end lies beyond the body (both overflow modes); read_to_end_or_max returns the old contents plus the whole stream or a prefix "
              "reaching max, for every chunking and every failing reader; read::file returns the whole file; none of the results depends on "
              "uninitialised memory. The model is tied to /repo on every run by a differential run of the real functions (scripted AsyncRead on "
              "a tokio current-thread runtime, temp file for read::file) against the extracted model, with exact equality of results.")
LEVEL_NOTE = ("Trusted: Coq kernel, extraction (ExtrOcamlBasic) reduced by an in-kernel recheck sample, the hand transcription of "
              "utils/src/lib.rs, async/src/lib.rs and src/read.rs into Model/Buffers.v as validated by the differential run, the documented "
              "contracts of BytesMut::reserve/set_len and slice::copy_within/copy_from_slice. The real side cannot choose the contents of "
              "uninitialised memory, so junk-independence of the implementation rests on the theorem plus the model correspondence. No axioms. "
              "One defect found and repaired: read_to_end_or_max read nothing into a full buffer of >= 32 bytes (theorem legacy_read_refuted).")
TECHNIQUE = "Coq proof (model = spec for all inputs, capacities, growth policies and junk) + differential correspondence model vs. implementation"
