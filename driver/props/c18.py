"""C18 — Buffer and stream helpers return exactly the bytes produced."""
import os
import random

from kv import Case, xn, xb, xl, xlist, xopt, xbool, xparse

ID = "C18"
MODULE = "C18"
IMPORTS = "Bytes RustInt Buffers BuffersProofs BuffersHttp1Link"
PROFILES = ("dev", "nochk")
EXHAUSTIVE = False
KERNEL_SAMPLE = 40

# KV_C18_LEGACY=1 compares the real read_to_end_or_max with the model of the code *before both repairs*
# (first call reserve(0, buffer), no drop guard), KV_C18_LEGACY=2 with the model of the code before the drop guard only;
# used to replay the defects on the unrepaired trees.
LEGACY = os.environ.get("KV_C18_LEGACY", "")
READ = {"1": "buf.read.legacy", "2": "buf.read.unguarded"}.get(LEGACY, "buf.read")

U64 = 2**64 - 1
# The extracted model recurses over byte lists: bodies of 256 KiB overflow the OCaml stack (8 MiB) in the read / file
# components, so no generated body, file or stream is longer than 128 KiB (half of that).
MAX_BODY = 131072
_pool_rng = random.Random(18)
POOL = bytes(_pool_rng.randrange(256) for _ in range(1 << 17))


def data(off, n):
    off %= 1 << 16
    return POOL[off:off + n]


JUNKS = [b"\xaa", b"", b"\x00\xff\x55", b"JUNKJUNK!", bytes(range(200, 232))]


def junk(rng):
    return xb(rng.choice(JUNKS))


# ---------------------------------------------------------------------------------------------
# capacity simulation (only guides the generators towards the thresholds; never compared)
# ---------------------------------------------------------------------------------------------
def grow_vec(cap, need):
    return max(8, 2 * cap, need)


def wb_cap_after(cap, length, n):
    if length + n > cap:
        return grow_vec(cap, cap + n * 3 // 2 + 128)
    return cap


def rt_reserve(read, cap):
    if cap - read < 32:
        lower = 1024
        hi = max(cap * 2 // 3, lower)
        add = lower if cap < lower else (hi if cap > hi else cap)
        return grow_vec(cap, cap + add)
    return cap


# ---------------------------------------------------------------------------------------------
# WriteableBytes
# ---------------------------------------------------------------------------------------------
def w_case(ctor, sizes, rng, kind, profile="dev", driver=None):
    if ctor[0] == "new":
        c = xl(xn(0))
    elif ctor[0] == "cap":
        c = xl(xn(1), xn(ctor[1]))
    elif len(ctor) == 4:
        c = xl(xn(2), xb(ctor[1]), xn(ctor[2]), xn(ctor[3]))
    else:
        c = xl(xn(2), xb(ctor[1]), xn(ctor[2]))
    off = rng.randrange(1 << 16)
    ws = []
    for n in sizes:
        ws.append(xb(data(off, n)))
        off += n + 1
    x = xl(c, xlist(ws), junk(rng)) if driver is None else xl(c, xlist(ws), junk(rng), xn(driver))
    return Case("buf.writeable", x, "buf.writeable.spec", {"kind": kind}, profile)


def w_ctor_state(ctor):
    if ctor[0] == "new":
        return 0, 0
    if ctor[0] == "cap":
        return ctor[1], 0
    return len(ctor[1]) + ctor[2], len(ctor[1])


def w_threshold_sizes(rng, ctor, nwrites):
    """sizes chosen relative to the simulated spare room: 0, 1, room-1, room, room+1, 4 KiB, around 3/2*n+128"""
    cap, length = w_ctor_state(ctor)
    sizes = []
    for _ in range(nwrites):
        room = cap - length
        pick = rng.randrange(10)
        if pick == 0:
            n = 0
        elif pick == 1:
            n = 1
        elif pick == 2:
            n = max(0, room - 1)
        elif pick == 3:
            n = room
        elif pick == 4:
            n = room + 1
        elif pick == 5:
            n = 4096
        elif pick == 6:
            n = rng.choice([127, 128, 129, 191, 192, 193, 255, 256, 257])
        elif pick == 7:
            n = room + rng.choice([2, 127, 128, 129])
        else:
            n = rng.randrange(0, 40)
        n = min(n, 6000)
        sizes.append(n)
        cap = wb_cap_after(cap, length, n)
        length += n
    return sizes


def gen_writeable(rng, tier):
    cases = []
    ctors = [("new",), ("cap", 0), ("cap", 1), ("cap", 7), ("cap", 8), ("cap", 9), ("cap", 127), ("cap", 128), ("cap", 129),
             ("cap", 512), ("cap", 4096), ("from", b"", 0), ("from", b"", 5), ("from", b"init", 0), ("from", b"init", 1),
             ("from", b"0123456789", 3), ("from", data(5, 200), 0), ("from", data(9, 200), 4096)]
    # the unit test of kvarn_utils and degenerate sessions
    for ct in ctors:
        cases.append(w_case(ct, [], rng, "w-nowrite"))
        cases.append(w_case(ct, [0], rng, "w-empty"))
        cases.append(w_case(ct, [0, 0, 1, 0], rng, "w-empty"))
        cases.append(w_case(ct, [3, 5, 2], rng, "w-small", "nochk"))
    # a single write of every size around the capacity, for small capacities (bounded exhaustive)
    for cap in list(range(0, 12)) + [126, 127, 128, 129, 130]:
        for n in list(range(0, cap + 3)) if cap < 12 else [cap - 1, cap, cap + 1]:
            cases.append(w_case(("cap", cap), [n], rng, "w-single"))
            cases.append(w_case(("cap", cap), [n, 1], rng, "w-single"))
            cases.append(w_case(("from", data(cap, cap // 2), cap - cap // 2), [n, 2], rng, "w-single"))
    # two writes: the second one lands exactly on / next to the boundary left by the first
    for cap in (0, 1, 8, 20, 200):
        for a in (0, 1, cap // 2, cap - 1 if cap else 0, cap, cap + 1):
            cap2 = wb_cap_after(cap, 0, a)
            room = cap2 - a
            for b_ in (0, 1, max(0, room - 1), room, room + 1, room + 200):
                cases.append(w_case(("cap", cap), [a, b_, 3], rng, "w-double"))
    nseq = 700 if tier == "quick" else 12000
    for i in range(nseq):
        ct = rng.choice(ctors) if rng.random() < 0.7 else ("cap", rng.randrange(0, 5000))
        if ct[0] == "from" and i % 2:
            ct = ct + (rng.randrange(NSTORAGE),)      # the BytesMut handed to From in another representation
        sizes = w_threshold_sizes(rng, ct, rng.randrange(1, 9 if tier == "quick" else 16))
        cases.append(w_case(ct, sizes, rng, "w-threshold", "nochk" if i % 5 == 0 else "dev",
                            driver=None if i % 3 else rng.choice([1, 2, 3])))
    # the sizes the callers really use: whole bodies through write_all / io::copy (8 KiB pieces), encoder output
    # blocks of 16-128 KiB into with_capacity(len/3 + 64) (comprash.rs), a 128 KiB body in one write
    big = [8191, 8192, 8193, 16384, 32768, 65536, 131072] if tier == "quick" else \
          [6001, 8191, 8192, 8193, 12288, 16384, 32767, 32768, 32769, 65535, 65536, 65537, 100000, 131072]
    for j, n in enumerate(big):
        for ct in (("new",), ("cap", n // 3 + 64), ("cap", n), ("cap", n - 1), ("from", data(j, 100), 28)):
            cases.append(w_case(ct, [n], rng, "w-large", PROFILES[j % 2], driver=j % 4))
            cases.append(w_case(ct, [n // 2, n - n // 2, 1], rng, "w-large", PROFILES[(j + 1) % 2], driver=(j + 1) % 4))
    for j in range(6 if tier == "quick" else 40):
        total = rng.choice([20000, 70000, 120000])
        sizes = []
        while sum(sizes) < total:
            sizes.append(rng.choice([8192, 8192, 4096, 16384, 32768, rng.randrange(1, 20000)]))
        cases.append(w_case(("cap", sum(sizes) // 3 + 64), sizes, rng, "w-large-seq", PROFILES[j % 2], driver=j % 4))
    return cases


# ---------------------------------------------------------------------------------------------
# BytesCow::replace
# ---------------------------------------------------------------------------------------------
NKINDS = 7          # storage kinds of the harness (c18.rs make_cow)
NSTORAGE = 5        # representations of a BytesMut handed to read_to_end_or_max / From<BytesMut> (c18.rs stored)
ALPHA = b"abcdefghijklmnopqrstuvwxyz0123456789ABCDEFGHIJKLMNOPQRSTUVWXYZ_-"
REP = b"#%&*+=?@^~" * 10


def r_case(body, spare, s, e, rep, kind_n, rng, kind, profile):
    x = xl(xbool(profile == "dev"), xn(kind_n), xb(body), xn(spare), xn(s), xn(e), xb(rep), junk(rng))
    return Case("buf.replace", x, "buf.replace.spec", {"kind": kind}, profile)


def gen_replace(rng, tier):
    cases = []
    k = 0
    maxlen = 8
    for n in range(0, maxlen + 1):
        body = ALPHA[:n]
        for s in range(0, n + 2):
            for e in range(0, n + 3):
                width = max(0, e - s)
                if tier == "quick":
                    rls = sorted({0, 1, 2, max(0, width - 1), width, width + 1, n + 1})
                else:
                    rls = range(0, n + 3)
                for rl in rls:
                    need = max(0, rl - width)
                    if tier == "quick":
                        # storage kind, spare capacity and arithmetic mode drawn independently of each other
                        combos = [(rng.randrange(NKINDS), rng.choice([0, 1, need, max(0, need - 1), need + 1, 3]),
                                   rng.choice(PROFILES))]
                    else:
                        combos = [(kd, sp, PROFILES[(kd + sp + rl) % 2]) for kd in range(NKINDS)
                                  for sp in sorted({0, max(0, need - 1), need, need + 1})]
                    for kd, sp, prof in combos:
                        cases.append(r_case(body, sp, s, e, REP[:rl], kd, rng, "r-exhaustive", prof))
    # usize boundaries for start / end (wrap-around candidates)
    big = [2**31, 2**32 - 1, 2**32, 2**63 - 1, 2**63, U64 - 16, U64 - 8, U64 - 3, U64 - 2, U64 - 1, U64]
    for n in (0, 1, 3, 8):
        body = ALPHA[:n]
        small = [0, 1, n, n + 1]
        for s in small + big:
            for e in small + big:
                if s in small and e in small:
                    continue
                for rl in (0, 1, 3, 9):
                    for prof in PROFILES:
                        cases.append(r_case(body, rl, s, e, REP[:rl], (s + e + rl) % NKINDS, rng, "r-usize", prof))
    nrand = 2500 if tier == "quick" else 60000
    for _ in range(nrand):
        n = rng.randrange(0, 65)
        body = bytes(rng.choice(ALPHA) for _ in range(n))
        r = rng.random()
        if r < 0.75:
            s = rng.randrange(0, n + 1)
            e = rng.randrange(s, n + 1)
        elif r < 0.85:
            e = rng.randrange(0, n + 1)
            s = rng.randrange(e, n + 3)
        else:
            s = rng.randrange(0, n + 4)
            e = rng.randrange(0, n + 4)
        rl = rng.choice([0, 1, max(0, e - s), max(0, e - s) + 1, rng.randrange(0, 90)])
        sp = rng.choice([0, 0, 1, max(0, rl - max(0, e - s)), rng.randrange(0, 100)])
        cases.append(r_case(body, sp, s, e, REP[:rl], rng.randrange(NKINDS), rng, "r-random", rng.choice(PROFILES)))
    # whole pages: bodies of 4 KiB - 128 KiB, replacements up to 16 KiB, every storage kind
    nbig = 40 if tier == "quick" else 600
    for j in range(nbig):
        n = rng.choice([4095, 4096, 4097, 8192, 20000, 65536] + ([100000, 131072] if j % 5 == 0 else []))
        body = data(j * 7, n) if n <= 65536 else (POOL * 4)[j:j + n]
        s_ = rng.choice([0, 1, n // 2, n - 1, n, rng.randrange(0, n + 1)])
        e_ = rng.choice([s_, min(n, s_ + 1), min(n, s_ + 4096), n, rng.randrange(s_, n + 1)])
        rl = rng.choice([0, 1, e_ - s_, e_ - s_ + 1, 4096, 16384, rng.randrange(0, 9000)])
        rep = data(j * 13 + 5, rl)
        sp = rng.choice([0, 1, max(0, rl - (e_ - s_)), 4096])
        cases.append(r_case(body, sp, s_, e_, rep, j % NKINDS, rng, "r-large", PROFILES[j % 2]))
    return cases


def rs_case(body, spare, edits, kind_n, post, rng, kind, profile):
    x = xl(xbool(profile == "dev"), xn(kind_n), xb(body), xn(spare),
           xlist([xl(xn(s), xn(e), xb(r)) for s, e, r in edits]), xn(post), junk(rng))
    return Case("buf.replace_seq", x, "buf.replace_seq.spec", {"kind": kind}, profile)


def gen_replace_seq(rng, tier):
    """chains of 0-10 edits on one BytesCow (what the Present extensions do), then deref / freeze / into_mut / ref_mut"""
    cases = []
    for kd in range(NKINDS):
        for post in range(4):
            cases.append(rs_case(b"0123456", 2, [], kd, post, rng, "rs-noedit", PROFILES[(kd + post) % 2]))
            cases.append(rs_case(b"0123456", 2, [(2, 4, b"XXXXX"), (0, 1, b""), (9, 9, b"!")], kd, post, rng, "rs-corpus",
                                 PROFILES[(kd + post + 1) % 2]))
    n = 600 if tier == "quick" else 12000
    for j in range(n):
        ln = rng.choice([0, 1, 5, 40, 64, 300]) if j % 10 else rng.choice([4096, 20000])
        body = bytes(rng.choice(ALPHA) for _ in range(ln)) if ln <= 300 else data(j, ln)
        cur = ln
        edits = []
        for _ in range(rng.randrange(1, 11)):
            r = rng.random()
            if r < 0.9:
                s_ = rng.randrange(0, cur + 1)
                e_ = rng.choice([s_, cur, rng.randrange(s_, cur + 1)])
            elif r < 0.96:           # reversed
                e_ = rng.randrange(0, cur + 1)
                s_ = rng.randrange(e_, cur + 3)
            else:                    # out of bounds: the chain ends in a panic
                s_ = rng.randrange(0, cur + 2)
                e_ = cur + rng.randrange(1, 4)
            rl = rng.choice([0, 1, max(0, e_ - s_), max(0, e_ - s_) + 1, rng.randrange(0, 60), 200])
            edits.append((s_, e_, REP[:rl] if rl <= 100 else data(j + rl, rl)))
            if e_ > cur:
                break
            cur = cur - (e_ - min(s_, e_)) + rl
        cases.append(rs_case(body, rng.choice([0, 1, 3, 64, 500]), edits, rng.randrange(NKINDS), rng.randrange(4), rng,
                             "rs-random", rng.choice(PROFILES)))
    return cases


# ---------------------------------------------------------------------------------------------
# read_to_end_or_max
# ---------------------------------------------------------------------------------------------
def adaptive_chunks(rng, initlen, spare, total, style):
    """chunk sizes chosen against the simulated room offered by the (repaired) code"""
    cap = initlen + spare
    read = initlen
    cap = rt_reserve(read, cap)
    out = []
    remaining = total
    while remaining > 0:
        room = cap - read
        st = style if style != "mix" else rng.choice(["one", "fill", "fill-1", "fill+1", "thr", "rand", "rand", "small"])
        if st == "one":
            n = 1
        elif st == "fill":
            n = room
        elif st == "fill-1":
            n = room - 1
        elif st == "fill+1":
            n = room + 1
        elif st == "thr":
            n = room - 32 + rng.choice([-1, 0, 1])
        elif st == "small":
            n = rng.randrange(1, 40)
        else:
            n = rng.randrange(1, 5000)
        n = max(1, min(n, remaining))
        out.append(n)
        remaining -= n
        left = n
        while left > 0:
            got = min(left, cap - read)
            read += got
            left -= got
            cap = rt_reserve(read, cap)
    return out


PEND = xl()


def rd_case(init, spare, mx, sizes, rng, kind, fails=(), empties=False, profile="dev", pends=(), patience=None, storage=None):
    """pends: indexes of chunks before which the reader answers Pending (len(sizes) = after the last chunk; an index may
    occur several times); patience: None = the caller awaits to the end, k = it drops the future at the (k+1)-th Pending
    (polled by hand), (0, ms) = the same by tokio::time::timeout"""
    off = rng.randrange(1 << 16)
    evs = []
    fails = dict(fails)
    pends = list(pends)
    for i, n in enumerate(sizes):
        evs += [PEND] * pends.count(i)
        if i in fails:
            evs.append(xn(fails[i]))
        if empties and i % 3 == 1:
            evs.append(xb(b""))
        evs.append(xb(data(off, n)))
        off += n
    evs += [PEND] * pends.count(len(sizes))
    if len(sizes) in fails:
        evs.append(xn(fails[len(sizes)]))
    fields = [xb(init), xn(spare), xn(mx), xlist(evs), junk(rng)]
    if patience is not None or pends or storage is not None:
        fields.append(xl() if patience is None else xl(xn(patience)) if isinstance(patience, int) else xl(xn(0), xn(patience[1])))
    if storage is not None:
        fields.append(xn(storage))
    return Case(READ, xl(*fields), "buf.read.spec", {"kind": kind}, profile)


def maxes(initlen, total):
    t = initlen + total
    return sorted({0, 1, initlen, initlen + 1, max(0, t - 1), t, t + 1, initlen + total // 2, 2**32, U64})


def gen_read(rng, tier):
    cases = []
    # corpus: a full initial buffer (len == capacity >= 32) used to make the helper return without reading
    for n, sp in ((40, 0), (32, 0), (33, 0), (31, 0), (4096, 0), (40, 1), (100, 31), (100, 32)):
        cases.append(rd_case(data(1, n), sp, 1000 + n, [10], rng, "rd-corpus-full"))
        cases.append(rd_case(data(1, n), sp, U64, [1, 1, 5000], rng, "rd-corpus-full"))
    # initial buffers x spare capacities around the 32-byte threshold x maxima
    for initlen in (0, 1, 31, 32, 33, 64, 1000):
        for sp in (0, 1, 2, 30, 31, 32, 33, 34, 512, 4096):
            for sizes in ([], [1], [5, 5], [sp] if sp else [2], [sp + 1], [max(1, sp - 1), 3], [2000], [700, 700, 700]):
                total = sum(sizes)
                ms = maxes(initlen, total) if tier != "quick" else rng.sample(maxes(initlen, total), 3) + [U64]
                for mx in ms:
                    cases.append(rd_case(data(3, initlen), sp, mx, sizes, rng, "rd-threshold",
                                         profile="nochk" if (initlen + sp + mx) % 7 == 0 else "dev"))
    # single-byte reads
    for total in ([0, 1, 2, 31, 32, 33, 100, 1023, 1024, 1025, 2048] if tier == "quick" else
                  [0, 1, 2, 31, 32, 33, 100, 1023, 1024, 1025, 2048, 4095, 4096, 4097, 8192]):
        for initlen, sp in ((0, 4096), (0, 0), (7, 40), (40, 0)):
            for mx in (U64, total // 2, initlen + total):
                cases.append(rd_case(data(4, initlen), sp, mx, [1] * total, rng, "rd-single-byte"))
    # reads that fill the spare capacity exactly / around it / around the 32-byte threshold
    styles = ["fill", "fill-1", "fill+1", "thr", "mix", "small", "rand"]
    nad = 300 if tier == "quick" else 4000
    for i in range(nad):
        st = styles[i % len(styles)]
        initlen = rng.choice([0, 0, 0, 5, 40, 1000])
        sp = rng.choice([0, 1, 31, 32, 33, 64, 512, 4096, 4096])
        total = rng.choice([10, 100, 1500, 5000, 9000]) if tier == "quick" or rng.random() < 0.8 else rng.choice([20000, 65536])
        if st in ("small",) and total > 6000:
            total = 6000
        sizes = adaptive_chunks(rng, initlen, sp, total, st)
        mx = rng.choice(maxes(initlen, total) + [U64, U64, initlen + rng.randrange(0, total + 1)])
        cases.append(rd_case(data(i, initlen), sp, mx, sizes, rng, "rd-" + st, empties=(i % 4 == 0),
                             profile="nochk" if i % 6 == 0 else "dev", storage=None if i % 2 else rng.randrange(NSTORAGE)))
    # streams up to 64 KiB
    for total in ((16384, 65536) if tier == "quick" else (16384, 32768, 65535, 65536)):
        for st in ("fill", "rand", "thr"):
            for initlen, sp in ((0, 4096), (0, 0), (100, 5)):
                sizes = adaptive_chunks(rng, initlen, sp, total, st)
                for mx in (U64, total // 2):
                    cases.append(rd_case(data(6, initlen), sp, mx, sizes, rng, "rd-64k"))
    # failing readers: the error position relative to the chunks and to the maximum
    nf = 150 if tier == "quick" else 2500
    for i in range(nf):
        initlen = rng.choice([0, 3, 40])
        sp = rng.choice([0, 1, 32, 100, 4096])
        total = rng.choice([0, 1, 50, 1500, 6000])
        sizes = adaptive_chunks(rng, initlen, sp, total, "mix") if total else []
        pos = rng.randrange(0, len(sizes) + 1)
        # code mod 8 = io::ErrorKind on the real side: Other, Interrupted, WouldBlock, ConnectionReset, UnexpectedEof,
        # TimedOut, BrokenPipe, ConnectionAborted
        fails = {pos: rng.choice([8, 16, 1, 9, 2, 10, 3, 11, 4, 12, 5, 6, 7, 104])}
        if rng.random() < 0.2 and len(sizes) > 1:
            fails[rng.randrange(0, len(sizes) + 1)] = rng.choice([7, 1, 2, 3, 4])
        mx = rng.choice([U64, U64, initlen + sum(sizes[:pos]), initlen + sum(sizes[:pos]) + 1, max(0, initlen + sum(sizes[:pos]) - 1)])
        cases.append(rd_case(data(i, initlen), sp, mx, sizes, rng, "rd-fail", fails=fails, empties=(i % 3 == 0),
                             storage=None if i % 3 else rng.randrange(NSTORAGE)))
    # every error kind at every position of a short stream (a kind handled on its own would show here)
    for code in range(8, 16):
        for pos in range(0, 4):
            for sp in (0, 100):
                cases.append(rd_case(b"in", sp, U64, [3, 2000, 1], rng, "rd-fail-kind", fails={pos: code}))
    cases += gen_pending(rng, tier)
    return cases


def gen_pending(rng, tier):
    """readers that answer Pending, callers that wait and callers that drop the future (by hand and by timeout)"""
    cases = []
    # corpus: the input of the repaired defect (stale bytes visible after a cancellation) and its neighbours
    for init, sp in ((b"in", 0), (b"in", 100), (b"", 0), (data(1, 40), 0), (data(1, 1000), 30)):
        for sizes, pends in (([3, 2], [1]), ([3, 2], [0]), ([3, 2], [2]), ([3, 1, 1], [1, 2]), ([], [0]), ([2000, 2000], [1]),
                             ([1] * 40, [40]), ([1] * 40, list(range(41)))):
            for pat in (None, 0, 1):
                cases.append(rd_case(init, sp, U64, sizes, rng, "rd-pend-corpus", pends=pends, patience=pat))
            cases.append(rd_case(init, sp, len(init) + sum(sizes[:1]), sizes, rng, "rd-pend-corpus", pends=pends, patience=0))
    n = 500 if tier == "quick" else 8000
    for i in range(n):
        initlen = rng.choice([0, 0, 3, 40, 1000])
        sp = rng.choice([0, 1, 31, 32, 33, 100, 4096])
        total = rng.choice([0, 1, 50, 1500, 6000]) if tier == "quick" or rng.random() < 0.9 else 30000
        st = rng.choice(["mix", "fill", "thr", "small", "rand"])
        if st == "small":
            total = min(total, 3000)
        sizes = adaptive_chunks(rng, initlen, sp, total, st) if total else []
        npend = rng.choice([1, 1, 2, 3, 6])
        pends = sorted(rng.randrange(0, len(sizes) + 1) for _ in range(npend))
        pat = rng.choice([None, None, 0, 0, 1, npend - 1, npend, npend + 1])
        fails = {}
        if rng.random() < 0.25:
            fails[rng.randrange(0, len(sizes) + 1)] = rng.choice([9, 10, 11, 12, 16])
        cut = rng.choice(pends)
        mx = rng.choice([U64, U64, U64, initlen + sum(sizes[:cut]), initlen + sum(sizes[:cut]) + 1, max(0, initlen + sum(sizes[:cut]) - 1)])
        cases.append(rd_case(data(i, initlen), sp, mx, sizes, rng, "rd-pend", fails=fails, pends=pends, patience=pat,
                             empties=(i % 5 == 0), profile="nochk" if i % 6 == 0 else "dev",
                             storage=None if i % 3 else rng.randrange(NSTORAGE)))
    # the cancellation as kvarn's callers do it: tokio::time::timeout around the helper, a reader that stalls for good.
    # The reader has exactly one Pending and stalls there whenever it is polled, so how long the timeout is (and how
    # loaded the machine is) cannot change the outcome: it only has to fire.
    nt = 6 if tier == "quick" else 30
    for i in range(nt):
        initlen = rng.choice([0, 2, 40])
        sp = rng.choice([0, 100, 4096])
        sizes = [rng.choice([1, 3, 700, 2000]) for _ in range(rng.randrange(0, 4))]
        at = rng.randrange(0, len(sizes) + 1)
        cases.append(rd_case(data(i, initlen), sp, U64, sizes, rng, "rd-timeout", pends=[at], patience=(0, 25)))
    return cases


def gen_file(rng, tier):
    sizes = [0, 1, 100, 4063, 4064, 4065, 4095, 4096, 4097, 8192, 65536]
    if tier != "quick":
        sizes += [4096 - 33, 4096 - 31, 12287, 12288, 12289, 100000, 131072]
    return [Case("buf.file", xl(xb(data(n, n) if n <= 65536 else (POOL * 3)[:n]), junk(rng)), "buf.file.spec", {"kind": "file"})
            for n in sizes]


def f_case(ops, rng, kind):
    return Case("buf.files", xl(xlist(ops), junk(rng)), "buf.files.spec", {"kind": kind})


def F_WRITE(p, content, m):
    return xl(xn(0), xn(p), xb(content), xn(m))


def F_REMOVE(p):
    return xl(xn(1), xn(p))


def F_MKDIR(p, m):
    return xl(xn(2), xn(p), xn(m))


def F_READ(v, p, cached):
    return xl(xn(3), xn(v), xn(p), xbool(cached))


def F_EXTERNAL(p, path, content):
    return xl(xn(4), xn(p), xb(path.encode()), xb(content))


EXTERNAL_FILES = ["/proc/version", "/proc/sys/kernel/ostype", "/proc/filesystems"]


def gen_files(rng, tier):
    """histories of file changes and reads through file / file_cached / file_cached_with_mtime, with one FileCache and past it"""
    cases = []
    sizes = [0, 1, 100, 4063, 4064, 4065, 4095, 4096, 4097, 5999, 6000, 6001, 8192, 65536]
    if tier != "quick":
        sizes += [12288, 100000, 131072]
    # every variant x cached/not on a fresh file of every size: miss, then hit, then past the cache
    for j, n in enumerate(sizes):
        c = data(n + j, n) if n <= 65536 else (POOL * 4)[j:j + n]
        for v in range(3):
            cases.append(f_case([F_WRITE(1, c, 10 + j), F_READ(v, 1, True), F_READ(v, 1, True), F_READ(v, 1, False),
                                 F_READ((v + 1) % 3, 1, True), F_READ((v + 2) % 3, 1, True)], rng, "f-size"))
    # a cached entry outlives the file: changed (longer, shorter, same length), removed, turned into a directory
    for v in (1, 2):
        for c1, c2 in ((b"first", b"second, longer"), (data(1, 7000), b"short"), (b"aaaa", b"bbbb"), (b"", b"x"), (b"x", b"")):
            cases.append(f_case([F_WRITE(1, c1, 5), F_READ(v, 1, True), F_WRITE(1, c2, 9), F_READ(1, 1, True), F_READ(2, 1, True),
                                 F_READ(0, 1, True), F_READ(0, 1, False), F_READ(2, 1, False)], rng, "f-stale"))
            cases.append(f_case([F_WRITE(1, c1, 5), F_READ(v, 1, True), F_REMOVE(1), F_READ(1, 1, True), F_READ(2, 1, True),
                                 F_READ(0, 1, True), F_READ(1, 1, False), F_READ(2, 1, False), F_READ(0, 1, False)], rng, "f-removed"))
            cases.append(f_case([F_WRITE(1, c1, 5), F_READ(v, 1, True), F_MKDIR(1, 6), F_READ(v, 1, True), F_READ(v, 1, False)],
                                rng, "f-stale"))
    # what cannot be read: missing file, directory; the negative entry outlives the file's creation; `file` does not fill
    for v in range(3):
        cases.append(f_case([F_READ(v, 1, True), F_READ(v, 1, False), F_WRITE(1, b"now here", 3), F_READ(v, 1, True),
                             F_READ(v, 1, False), F_READ(1, 1, True)], rng, "f-missing"))
        cases.append(f_case([F_MKDIR(2, 4), F_READ(v, 2, True), F_READ(v, 2, False), F_REMOVE(2), F_WRITE(2, data(2, 5000), 8),
                             F_READ(v, 2, True), F_READ(v, 2, False), F_READ(2, 2, True)], rng, "f-directory"))
    # files whose metadata says 0 bytes (procfs): a reader that sized its buffer from the metadata would return nothing
    for path in EXTERNAL_FILES:
        try:
            content = open(path, "rb").read()
        except OSError:
            continue
        if not content:
            continue
        for v in range(3):
            cases.append(f_case([F_EXTERNAL(7, path, content), F_READ(v, 7, False), F_READ(v, 7, True), F_READ(1, 7, True)],
                                rng, "f-procfs"))
    # random histories over three paths
    n = 120 if tier == "quick" else 3000
    for j in range(n):
        ops = []
        for _ in range(rng.randrange(2, 14)):
            r = rng.random()
            p = rng.randrange(1, 4)
            if r < 0.3:
                ln = rng.choice([0, 1, 10, 100, 4096, 5000, 7000])
                ops.append(F_WRITE(p, data(j + ln + p, ln), rng.randrange(1, 1000)))
            elif r < 0.38:
                ops.append(F_REMOVE(p))
            elif r < 0.44:
                ops.append(F_MKDIR(p, rng.randrange(1, 1000)))
            else:
                ops.append(F_READ(rng.randrange(3), p, rng.random() < 0.7))
        if not any(o[1][0][1] == 3 for o in ops):
            ops.append(F_READ(rng.randrange(3), 1, True))
        cases.append(f_case(ops, rng, "f-history"))
    return cases


def gen_encode(rng, tier):
    """bodies compressed by the real gzip / brotli / zstd encoders into a WriteableBytes as comprash.rs does, decoded again"""
    cases = []
    texty = (b"<p>kvarn serves this paragraph again and again.</p>\n" * 4000)
    sizes = [0, 1, 100, 5000, 70000, 131072] if tier == "quick" else [0, 1, 2, 63, 64, 65, 100, 191, 192, 193, 4096, 5000, 20000, 70000, 100000, 131072]
    for j, n in enumerate(sizes):
        for codec, levels in ((0, (1, 6)), (1, (3, 9) if tier != "quick" else (3,)), (2, (1, 9))):
            for lv in levels:
                for body in ((POOL * 2)[j:j + n], texty[:n]):     # incompressible: the output outgrows len/3 + 64 many times
                    cases.append(Case("buf.encode", xl(xn(codec), xn(lv), xb(body), junk(rng)), "buf.encode.spec", {"kind": "encode"},
                                      PROFILES[(j + codec + lv) % 2]))
    return cases


def generate(rng, tier):
    return (gen_encode(rng, tier) + gen_read(rng, tier) + gen_writeable(rng, tier) + gen_replace(rng, tier) + gen_replace_seq(rng, tier) +
            gen_file(rng, tier) + gen_files(rng, tier))


# ---------------------------------------------------------------------------------------------
# oracle: the specification evaluated on the implementation's answer
# ---------------------------------------------------------------------------------------------
def read_spec_holds(impl_text, spec_text):
    """Model/Buffers.v [poll_spec] (= [read_spec] for a caller that awaits to the end) on the implementation's answer.
    spec = (L (B init) (B bytes-before-first-failure) (L [failure]) (N max) (L [bytes-before-the-point-of-cancellation]))"""
    try:
        i = xparse(impl_text)
        s = xparse(spec_text)
        init, pre, fail, mx, stall = s[1][0][1], s[1][1][1], s[1][2][1], s[1][3][1], s[1][4][1]
        fail = fail[0][1] if fail else None
        stall = stall[0][1] if stall else None
        tag = i[1][0][1]
        if tag == 0:
            buf, consumed = i[1][1][1], i[1][2][1]
            if not buf.startswith(init):
                return False
            taken = buf[len(init):]
            if not pre.startswith(taken) or consumed != len(taken):
                return False
            if stall is not None and consumed > len(stall):      # answered after the caller's patience had run out
                return False
            return (taken == pre and fail is None) or len(buf) >= mx
        if tag == 1:
            e, buf, consumed = i[1][1][1], i[1][2][1], i[1][3][1]
            if stall is not None and consumed > len(stall):
                return False
            return fail == e and buf == init + pre and consumed == len(pre)
        if tag == 4:
            # cancelled: the old contents and exactly the bytes delivered before the future was dropped, nothing else
            buf, consumed = i[1][1][1], i[1][2][1]
            return stall is not None and buf == init + stall and consumed == len(stall) and len(buf) < mx
        return False
    except (IndexError, TypeError, AssertionError, ValueError):
        return False


def spec_ok(c, i, s):
    if c.comp.startswith("buf.read"):
        return read_spec_holds(i, s)
    return i == s


def _read_canon(c, text):
    """What the property fixes of an answer of read_to_end_or_max.  When the helper stops because the soft maximum is
    reached, how far it overshoots depends on the window it offered last (its growth constants 32 / 1024 / 2/3 and the
    allocator's policy), which the property leaves open ("a prefix at least as long as the maximum"): such answers are
    compared up to the maximum, and on "the reader lost nothing" (consumed = bytes gained).  Everything else -- the whole
    stream, errors, cancellations, panics -- is compared exactly."""
    try:
        t = xparse(text)
        if t[0] != "L" or not t[1] or t[1][0] != ("N", 0):
            return text
        x = c.x[1]
        initlen, mx = len(x[0][1]), x[2][1]
        buf, consumed = t[1][1][1], t[1][2][1]
        if len(buf) >= mx:
            return ("stopped-at-max", buf[:max(mx, initlen)], consumed == len(buf) - initlen)
        return text
    except (IndexError, TypeError, AssertionError, ValueError):
        return text


def compare(c, i, m):
    if c.comp.startswith("buf.read"):
        return _read_canon(c, i) == _read_canon(c, m)
    return i == m


def extra_coverage(cases, impl, model, spec):
    """cases whose answers agree on what the property fixes but not byte for byte: the model's growth constants have
    drifted from the code's (a note, not a verdict)"""
    def modelled_storage(c):
        x = c.x[1]
        return len(x) < 7 or x[6][1] == 0
    drift_all = [c for c in cases if c.comp.startswith("buf.read") and c.id in impl and c.id in model
                 and impl[c.id] != model[c.id] and compare(c, impl[c.id], model[c.id])]
    drift = [c.id for c in drift_all if modelled_storage(c)]
    other = [c.id for c in drift_all if not modelled_storage(c)]
    junk_dependent = [c.id for c in cases if impl.get(c.id, "").startswith("(L (N 91)")]
    return {"read_overshoot_drift": {"cases": len(drift), "first_ids": drift[:10],
                                     "meaning": "on a fresh buffer (the storage whose growth the model transcribes) implementation and model "
                                                "stop at different lengths >= max: the model's window constants (32 / 1024 / 2/3, Vec growth) "
                                                "differ from the code's; allowed by the property, but the model should follow"},
            "read_overshoot_other_storage": {"cases": len(other),
                                             "meaning": "the same on buffers in representations that grow differently from a fresh vector "
                                                        "(advanced, shared, reclaimable): expected"},
            "answers_depending_on_uninitialised_memory": len(junk_dependent),
            "poison_runs_per_case": 2}


def signature(c, m):
    comp = c.comp
    if comp.startswith("buf.read"):
        cls = {"(L (N 0)": "ok", "(L (N 1)": "ioerr", "(L (N 4)": "cancelled"}.get(m[:8], "other")
    elif comp.startswith("buf.replace"):
        cls = "panic" if m.startswith("(L (N 2)") else "ok"
    else:
        cls = "ok" if m.startswith("(L (N 0)") else "other"
    return cls


def directed(rng, mismatches):
    """after a broken proof / correspondence: sweep every constant of the three helpers more densely"""
    cases = []
    r = random.Random(1818)
    for initlen in list(range(0, 70)) + [1000, 1023, 1024, 1025, 1536, 1537, 4096]:
        for sp in (0, 1, 2, 30, 31, 32, 33):
            for sizes in ([1], [sp + 1, 1], [40, 40], [1, 1, 1], [3000]):
                for mx in (U64, initlen + sum(sizes), initlen + 1):
                    cases.append(rd_case(data(2, initlen), sp, mx, sizes, r, "directed-read"))
    for cap in range(0, 40):
        for n in range(0, cap + 3):
            cases.append(w_case(("cap", cap), [n, 1, n], r, "directed-write"))
            cases.append(w_case(("from", data(0, cap), 0), [n, 1], r, "directed-write"))
    for n in range(0, 7):
        for s in range(0, n + 2):
            for e in range(0, n + 2):
                for rl in range(0, n + 3):
                    for kd in range(4):
                        for prof in PROFILES:
                            cases.append(r_case(ALPHA[:n], (s + e) % 3, s, e, REP[:rl], kd, r, "directed-replace", prof))
    for initlen in (0, 2, 40):
        for sp in (0, 1, 31, 32, 33, 100):
            for sizes in ([], [1], [3, 2], [40, 40], [3000]):
                for at in range(len(sizes) + 1):
                    for pat in (None, 0, 1):
                        cases.append(rd_case(data(2, initlen), sp, U64, sizes, r, "directed-pend", pends=[at], patience=pat))
                        cases.append(rd_case(data(2, initlen), sp, U64, sizes, r, "directed-pend", pends=[at, at], patience=pat))
    cases += gen_replace_seq(r, "quick")[:400]
    cases += gen_file(r, "thorough")
    cases += gen_files(r, "quick")
    return cases


def describe(c):
    from kv import pretty
    return {"component": c.comp, "input": pretty(c.x, 60), "profile": c.profile, "kind": c.meta.get("kind")}


THEOREMS = [
    ("writeable_is_append",
     r"forall grow junk (c : wctor) (writes : list bytes), grow_ok grow -> wb_session grow junk c writes = Ok (wctor_init c ++ concat writes)"),
    ("writeable_from_any_buffer",
     r"forall grow junk (b : buf) (writes : list bytes), grow_ok grow -> wf b -> exists w w' b', wb_from b = Ok w /\ wb_writes grow junk w writes = Ok w' /\ wb_into_inner w' = Ok b' /\ wf b' /\ contents b' = contents b ++ concat writes"),
    ("writeable_counts",
     r"forall grow junk (c : wctor) (writes : list bytes), grow_ok grow -> wb_session_n grow junk c writes = Ok (wctor_init c ++ concat writes, length (concat writes))"),
    ("replace_is_splice",
     r"forall grow junk (checked : bool) (b : buf) (s e : N) (rep : bytes), grow_ok grow -> wf b -> fits b rep -> s <= e -> e <= N.of_nat (b_len b) -> exists b', cow_replace grow junk checked b s e rep = Ok b' /\ wf b' /\ contents b' = splice (N.to_nat s) (N.to_nat e) rep (contents b)"),
    ("replace_panics_iff",
     r"forall grow junk (checked : bool) (b : buf) (s e : N) (rep : bytes), grow_ok grow -> wf b -> fits b rep -> (cow_replace grow junk checked b s e rep = Panic <-> N.of_nat (b_len b) < e)"),
    ("replace_complete",
     r"forall grow junk (checked : bool) (b : buf) (s e : N) (rep : bytes), grow_ok grow -> wf b -> fits b rep -> if e <=? N.of_nat (b_len b) then exists b', cow_replace grow junk checked b s e rep = Ok b' /\ wf b' /\ contents b' = splice (N.to_nat (N.min s e)) (N.to_nat e) rep (contents b) else cow_replace grow junk checked b s e rep = Panic"),
    ("replace_both_representations",
     r"forall grow junk (checked : bool) (c : cow) (s e : N) (rep : bytes), grow_ok grow -> cow_wf c -> fits_bytes (cow_bytes c) rep -> if e <=? N.of_nat (length (cow_bytes c)) then exists c', cow_replace_c grow junk checked c s e rep = Ok c' /\ cow_wf c' /\ cow_bytes c' = splice (N.to_nat (N.min s e)) (N.to_nat e) rep (cow_bytes c) else cow_replace_c grow junk checked c s e rep = Panic"),
    ("replace_chain_is_splice_chain",
     r"forall grow junk (checked : bool) (es : list edit) (c : cow), grow_ok grow -> cow_wf c -> fits_edits (cow_bytes c) es -> match splice_edits (cow_bytes c) es with | Ok d => exists c', cow_edits grow junk checked c es = Ok c' /\ cow_wf c' /\ cow_bytes c' = d | Panic => cow_edits grow junk checked c es = Panic | Err _ => False end"),
    ("read_all_or_prefix",
     r"forall grow junk (b : buf) (chunks : list bytes) (max : N), grow_ok grow -> wf b -> exists b' rest taken, read_to_end_or_max grow junk false b (data_stream chunks) max = RDone b' rest /\ contents b' = contents b ++ taken /\ concat chunks = taken ++ fst (pre_fail rest) /\ (taken = concat chunks \/ max <= N.of_nat (length (contents b')))"),
    ("read_with_failures",
     r"forall grow junk (b : buf) (cs : stream) (max : N), grow_ok grow -> wf b -> read_spec (contents b) cs max (read_to_end_or_max grow junk false b cs max)"),
    ("read_cancel_safe",
     r"forall grow junk (b : buf) (cs : stream) (max : N) (patience : option nat), grow_ok grow -> wf b -> poll_spec (contents b) cs max patience (read_poll grow junk false true b cs max patience)"),
    ("read_awaited",
     r"forall grow junk (legacy : bool) (b : buf) (cs : stream) (max : N), (forall guard b' rest, read_poll grow junk legacy guard b cs max None <> RCancelled b' rest) /\ read_poll grow junk legacy false b cs max None = read_poll grow junk legacy true b cs max None"),
    ("unguarded_cancel_shows_junk",
     r"forall grow junk (b : buf) (cs : stream) (max : N) (patience : option nat) b' rest, grow_ok grow -> wf b -> read_poll grow junk false false b cs max patience = RCancelled b' rest -> exists k pre, patience = Some k /\ before_stall k cs = Some (pre, rest) /\ b_len b' = capacity b' /\ firstn (length (contents b) + length pre) (contents b') = contents b ++ pre /\ (length (contents b) + length pre < length (contents b'))%nat"),
    ("unguarded_cancel_refuted",
     r"exists b cs max k, wf b /\ ~ poll_spec (contents b) cs max (Some k) (read_poll grow_vec (junk_of []) false false b cs max (Some k))"),
    ("read_reserve_transcriptions_agree",
     r"forall growH growB junk (read : nat) (b : buf), grows_agree growH growB -> grow_ok growB -> b_len b = capacity b -> (read <= capacity b)%nat -> exists b2, rtm_reserve growB junk read b = Ok b2 /\ capacity b2 = Http1Read.rtem_reserve growH read (capacity b) /\ b_len b2 = capacity b2 /\ (read + 32 <= capacity b2)%nat /\ firstn (capacity b) (b_data b2) = b_data b"),
    ("read_loop_transcriptions_agree",
     r"forall growH growB junk mode (max : nat), grows_agree growH growB -> grow_ok growB -> forall fuel buf cap tl d sched b cs, Http1Read.sched_pos sched -> b_len b = capacity b -> capacity b = cap -> firstn (length buf) (b_data b) = buf -> (length buf < cap)%nat -> translates cs mode d sched tl -> same_answer (Http1Read.rtem_loop growH fuel mode max buf cap tl (Http1Read.mk_reader d sched)) (rtm_loop growB junk true fuel (N.of_nat max) (length buf) b cs (Some 0%nat))"),
    ("read_to_bytes_uses_read_poll",
     r"forall growH growB junk mode early cl limit d sched, grows_agree growH growB -> grow_ok growB -> Http1Read.sched_pos sched -> let len := N.to_nat (N.min cl limit) in let buf := firstn len early in (length buf < len)%nat -> same_answer (Http1Read.read_to_bytes growH mode early cl limit (Http1Read.mk_reader d sched)) (read_poll growB junk false true (bm_of junk buf (len - length buf)) (strm mode d sched (len - length buf)) (N.of_nat len) (Some 0%nat))"),
    ("read_file_whole",
     r"forall grow junk (chunks : list bytes), grow_ok grow -> N.of_nat (length (concat chunks)) < u64_max -> read_file grow junk (data_stream chunks) = Ok (concat chunks)"),
    ("read_file_complete",
     r"forall grow junk (cs : stream), grow_ok grow -> N.of_nat (stream_len cs) < u64_max -> read_file grow junk cs = match snd (pre_fail cs) with None => Ok (fst (pre_fail cs)) | Some _ => Err 0 end"),
    ("files_transparent",
     r"forall grow junk now (ops : list fop), grow_ok grow -> Forall op_small ops -> files_run (fs_read grow junk) now [] [] ops = files_run fs_content now [] [] ops"),
    ("files_answers_are_file_contents",
     r"forall grow junk now (ops : list fop) (rs : list fres), grow_ok grow -> Forall op_small ops -> files_run (fs_read grow junk) now [] [] ops = Ok rs -> answers_ok [] [] ops rs"),
    ("file_cached_hit",
     r"forall reader now v fs p c opt, alookup p c = Some opt -> fc_read reader now v fs p (Some c) = Ok (match opt with | None => None | Some (m, d) => Some (d, match v with VCachedMtime => Some m | _ => None end) end, Some c)"),
    ("file_cached_miss",
     r"forall now v fs p c, alookup p c = None -> v <> VFile -> exists m0, fc_read fs_content now v fs p (Some c) = Ok (match content_of fs p with | None => (None, Some ((p, None) :: c)) | Some d => (Some (d, match v with VCachedMtime => Some m0 | _ => None end), Some ((p, Some (m0, d)) :: c)) end) /\ (forall d, content_of fs p = Some d -> fs_stat fs p = Some m0)"),
    ("no_junk",
     r"forall grow j1 j2, grow_ok grow -> (forall c writes, wb_session grow j1 c writes = wb_session grow j2 c writes) /\ (forall checked b1 b2 s e rep, wf b1 -> wf b2 -> fits b1 rep -> contents b1 = contents b2 -> match cow_replace grow j1 checked b1 s e rep, cow_replace grow j2 checked b2 s e rep with | Ok r1, Ok r2 => contents r1 = contents r2 | Panic, Panic => True | _, _ => False end) /\ (forall b1 b2 cs max patience, wf b1 -> wf b2 -> contents b1 = contents b2 -> capacity b1 = capacity b2 -> same_obs (read_poll grow j1 false true b1 cs max patience) (read_poll grow j2 false true b2 cs max patience)) /\ (forall cs, N.of_nat (stream_len cs) < u64_max -> read_file grow j1 cs = read_file grow j2 cs)"),
    ("legacy_read_ok_with_room",
     r"forall grow junk (b : buf) (cs : stream) (max : N), grow_ok grow -> wf b -> (b_len b < capacity b \/ capacity b < 32)%nat -> read_spec (contents b) cs max (read_to_end_or_max grow junk true b cs max)"),
    ("legacy_read_refuted",
     r"exists b cs max, wf b /\ ~ read_spec (contents b) cs max (read_to_end_or_max grow_vec (junk_of []) true b cs max)"),
]

RULE = ("direct calls of kvarn_utils::WriteableBytes (new / with_capacity / From<BytesMut>; write, write_all, io::copy, write_vectored; "
        "into_inner), kvarn_utils::BytesCow::replace (Ref, a Ref cut out of a larger Bytes, and five kinds of Mut storage: plain, "
        "advanced, shared with a live tail, reclaimable, unique Arc; overflow checks on and off), chains of up to 10 replace calls on one "
        "BytesCow followed by deref / freeze / into_mut / ref_mut, real gzip / brotli / zstd encoders writing into a WriteableBytes as "
        "comprash.rs sets it up (decoded again with the standard decoders), kvarn_async::read_to_end_or_max on buffers in five "
        "representations (fresh, advanced, shared, unique Arc, reclaimable) driven by a scripted AsyncRead "
        "(data, failures of eight io::ErrorKinds, Pending) whose future is polled by hand, dropped at a chosen Pending, or run under "
        "tokio::time::timeout with a reader that stalls for good, kvarn::read::file on a temp file, and histories of file changes and "
        "reads through kvarn::read::{file, file_cached, file_cached_with_mtime} with one real FileCache and past it -- each against "
        "the Coq model (correspondence) and against the Coq specification (oracle). Every case runs the real code twice under a "
        "poisoning global allocator (fresh, grown and freed memory filled with 0xA5 / 0x3C): an answer that differs between the two "
        "runs contains bytes nobody wrote. Writes: every single-write size around every capacity 0..11 and 126..130, pairs landing on "
        "the boundary left by the first write, random sequences with sizes 0, 1, room-1, room, room+1, 4 KiB, around 128/192/256, "
        "whole bodies of 8 KiB - 128 KiB in one piece and in 8-32 KiB pieces into with_capacity(len/3+64). replace: every (start, end, "
        "replacement length) on bodies of 0..8 bytes incl. reversed and out-of-bounds ranges (bounded-exhaustive; storage kind, spare "
        "capacity and arithmetic mode drawn independently; thorough: all combinations), usize boundary values, random on bodies up to "
        "64 bytes, bodies of 4 KiB - 128 KiB with replacements up to 16 KiB. Streams: initial length x spare capacity around the "
        "32-byte threshold x maxima; single-byte reads; chunks generated against a simulation of the capacity so that reads fill the "
        "spare capacity exactly / +-1 / leave 31,32,33 bytes; streams of 16-64 KiB; empty chunks; failing readers (every kind at every "
        "position); 1-6 Pendings at random positions with a caller that waits, that drops the future at the 1st..n-th Pending, or "
        "whose patience outlasts the stream. Files: sizes 0..64 KiB (128 KiB thorough) around 4096 and 6000 x the three functions x "
        "miss / hit / no cache; files changed, shortened, removed or turned into a directory behind a cached entry; missing files and "
        "directories (negative entries); procfs files (length 0 in the metadata); random histories over three paths. "
        "distinct_nontrivial counts distinct (component, input, outcome class) triples")
ASSUMPTIONS = [
    "allocation sizes fit: 2*len + replacement length <= 2^64-1 in replace (hypotheses `fits` / `fits_bytes` / `fits_edits` of the "
    "replace theorems); n*3/2+128 and capacity*2/3 do not overflow usize (lengths are unbounded naturals in the model of WriteableBytes "
    "and read_to_end_or_max); files are shorter than 2^64-1 bytes (`op_small`)",
    "the allocator only promises capacity >= requested (hypothesis grow_ok) and BytesMut::reserve keeps the visible len bytes; "
    "bytes beyond len are arbitrary (parameter junk); the correspondence instantiates grow with Vec's amortised growth max(8, 2*cap, need)",
    "an AsyncRead returns between 1 and room bytes per successful read while data remains, writes them to the front of the window, "
    "and returns 0 bytes only at the end of the stream (stream = list of Data / Fail / Pend events); it may return Pending any number "
    "of times and the caller may drop the future at any of them; a reader that claims bytes it did not write, or answers 0 bytes and "
    "later delivers more, is outside the model",
    "the helper treats every io::ErrorKind alike (passes the error on): the model's failure carries a code, the real side maps "
    "code mod 8 to Other / Interrupted / WouldBlock / ConnectionReset / UnexpectedEof / TimedOut / BrokenPipe / ConnectionAborted",
    "kvarn::read::*: a file is a stream and a modification time that do not change during one call; stat succeeds whenever the file "
    "can be opened; the FileCache (moka, 1024 entries) evicts nothing during a case and returns an inserted entry at once; the uring "
    "code path (feature uring, off in `full`) is not modelled",
    "when read_to_end_or_max stops at the soft maximum, how far it overshoots (its window constants 32 / 1024 / 2/3 and the allocator's "
    "growth) is not fixed by the property: implementation and model are compared up to the maximum there, byte for byte everywhere "
    "else; cases where they overshoot differently are counted in coverage.read_overshoot_drift",
]
TRUSTED = ["modelled: utils/src/lib.rs WriteableBytes (new, with_capacity, From<BytesMut>, write, into_inner) and BytesCow "
           "(replace, ref_mut / take_mut, freeze, into_mut); async/src/lib.rs read_to_end_or_max (+ inner reserve, the Restore drop "
           "guard) as a state machine over polls; src/read.rs read / file / file_cached / file_cached_with_mtime (non-uring) over "
           "a FileCache; bytes::BytesMut::{reserve,set_len}, slice::{copy_within,copy_from_slice}, BytesMut::from(&[u8]), "
           "moka::sync::Cache::{get,insert} by their documented contracts",
           "the harness's poisoning #[global_allocator] (harness/src/c18.rs, pass-through unless a C18 component switches it on) "
           "and its scripted AsyncRead / hand-written poll loop"]
LEVEL_TEXT = ("Machine-checked Coq theorems over a model of the helpers in which a buffer is (allocation contents, visible length), "
              "growth goes through an arbitrary allocation policy and uninitialised memory is an arbitrary parameter: WriteableBytes = append "
              "for every constructor, capacity and write sequence, and the counts write returns add up; BytesCow::replace = splice for "
              "every in-bounds range on both representations, panic exactly when the end lies beyond the body (both overflow modes), "
              "chains of edits = chains of splices; read_to_end_or_max, modelled at the level of polls, returns the old contents plus the "
              "whole stream or a prefix reaching max for every chunking, every failing reader and every number of Pending answers, and "
              "when the caller drops the future at any Pending (a timeout) the buffer is well formed and holds exactly the old contents "
              "plus the bytes delivered so far (the code before the repair made here left >= 1 uninitialised byte visible: theorem + "
              "refutation witness); read::file returns the whole file; file / file_cached / file_cached_with_mtime over any history of "
              "file changes answer exactly what the file held, bytes and mtime, at some moment up to the read (at the read itself with "
              "no cache), a cached entry is stable, None is cached exactly when the read failed; none of the results depends on "
              "uninitialised memory, cancellation included; the second transcription of read_to_end_or_max in Model/Http1Read.v "
              "(used by C02/C07/C20) is proved to be the same function. The model is tied to the repo on every run by a differential "
              "run of the real functions against the extracted model, and every real run is repeated under two allocator poison bytes.")
LEVEL_NOTE = ("Trusted: Coq kernel, extraction (ExtrOcamlBasic) reduced by an in-kernel recheck sample, the hand transcription of "
              "utils/src/lib.rs, async/src/lib.rs and src/read.rs into Model/Buffers.v as validated by the differential run, the documented "
              "contracts of BytesMut::reserve/set_len/from, slice::copy_within/copy_from_slice and moka's get/insert. Junk-independence of "
              "the implementation is now also observed: the harness poisons fresh, grown and freed memory with two different bytes and "
              "requires identical answers (what it cannot see: reliance on the allocator copying bytes beyond len on realloc, which leaves "
              "the answer right). Not covered: io_uring path, eviction from the FileCache, files changing during one call, readers "
              "violating the AsyncRead contract. No axioms. Three defects found and repaired: read_to_end_or_max read nothing into a full "
              "buffer of >= 32 bytes (legacy_read_refuted); it left the buffer's length at its capacity when its future was dropped "
              "(unguarded_cancel_refuted, reproduced under tokio::time::timeout with poisoned memory); read::stat failed on file systems "
              "without a creation time, so file_cached_with_mtime answered None for readable files (found by the procfs cases).")
TECHNIQUE = "Coq proof (model = spec for all inputs, capacities, growth policies, junk, Pending/cancellation schedules and file histories) + differential correspondence model vs. implementation under a poisoning allocator"
