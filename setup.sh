#!/bin/sh
# Builds the framework from files on disk only (offline).
set -e
cd "$(dirname "$0")"
export CARGO_NET_OFFLINE=true
python3 - <<'PY' || echo "harness build failed (checks will report it)"
import sys
sys.path.insert(0, "driver")
import kv
kv.build_harness(("dev",), ("hooks",))   # variant with the verif-hooks feature (C10, C11)
kv.build_harness(("dev", "nochk"))
PY
# the operator's binary (ctl/src/main.rs) for C19's component ctl.binary; the check rebuilds it incrementally
(cd "${KV_REPO:-/repo}" && cargo build --offline --quiet -p kvarnctl --target-dir "$OLDPWD/harness/target-ctl" >/dev/null 2>&1) || echo "kvarnctl build failed (C19 will report it)"
(cd coq && ./gen.sh && timeout 3000 make -j16 >/dev/null 2>&1) || echo "coq build failed (checks will report it)"
python3 - <<'PY'
import sys
sys.path.insert(0, "driver")
import kv
kv.build_model_driver()
PY
echo setup done
